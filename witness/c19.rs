//! C19: VectorMap and DisjointSet against naive models over random operation histories
//! (incl. overwrites, removals of absent keys, unions inside one class, re-inserts).
use std::{collections::BTreeMap, panic::catch_unwind};

use storage_layout_extractor::data::{combine::Combine, disjoint_set::DisjointSet, vector_map::VectorMap};

use crate::{witness, Rng};

#[derive(Clone, Debug, Default, Eq, PartialEq)]
struct Bag(Vec<u16>);
impl Combine for Bag {
    fn combine(self, other: Self) -> Self {
        let mut v = self.0;
        v.extend(other.0);
        v.sort_unstable();
        Bag(v)
    }
    fn identity() -> Self { Bag(vec![]) }
}

#[test]
fn c19_vector_map_vs_btreemap() {
    std::panic::set_hook(Box::new(|_| {}));
    let mut cases = 0u64;
    for round in 0..400u64 {
        let mut rng = Rng::seeded(1900 + round);
        let universe = if round % 2 == 0 { 4 } else { 64 };
        let len = if round % 2 == 0 { 8 } else { 120 };
        let ops: Vec<(u64, usize, u32)> = (0..len).map(|_| (rng.below(3), rng.below(universe) as usize, rng.next() as u32)).collect();
        let o2 = ops.clone();
        let res = catch_unwind(move || {
            let mut m: VectorMap<usize, u32> = VectorMap::new();
            let mut model: BTreeMap<usize, u32> = BTreeMap::new();
            for (i, (op, k, v)) in o2.iter().enumerate() {
                match op {
                    0 | 1 => { m.insert(k, *v); model.insert(*k, *v); }
                    _ => {
                        let a = m.remove(k);
                        let b = model.remove(k);
                        if a != b { return Some((i, format!("remove({k}) returned {a:?}"), format!("{b:?}"))); }
                    }
                }
                if m.len() != model.len() { return Some((i, format!("len()={}", m.len()), format!("{}", model.len()))); }
                if m.is_empty() != model.is_empty() { return Some((i, format!("is_empty()={}", m.is_empty()), format!("{}", model.is_empty()))); }
                for q in 0..universe as usize {
                    if m.get_mut(&q).map(|x| *x) != model.get(&q).copied() { return Some((i, format!("get_mut({q})={:?}", m.get_mut(&q).map(|x| *x)), format!("{:?}", model.get(&q)))); }
                    if m.get(&q) != model.get(&q) { return Some((i, format!("get({q})={:?}", m.get(&q)), format!("{:?}", model.get(&q)))); }
                }
                let it: Vec<(usize, u32)> = m.iter().map(|(k, v)| (k, *v)).collect();
                let wantit: Vec<(usize, u32)> = model.iter().map(|(k, v)| (*k, *v)).collect();
                if it != wantit { return Some((i, format!("iter()={it:?}"), format!("{wantit:?}"))); }
                let vals: Vec<u32> = m.values().copied().collect();
                if vals != model.values().copied().collect::<Vec<u32>>() { return Some((i, format!("values()={vals:?}"), format!("{:?}", model.values().collect::<Vec<_>>()))); }
                let idx: Vec<usize> = m.indices().collect();
                let want: Vec<usize> = model.keys().copied().collect();
                if idx != want { return Some((i, format!("indices()={idx:?}"), format!("{want:?}"))); }
            }
            None
        });
        cases += 1;
        match res {
            Ok(None) => {}
            Ok(Some((i, got, want))) => witness("C19", "vm.model", format!("ops={:?} (0/1=insert k v, 2=remove k) failing after op #{i}", &ops[..=i]), got, want),
            Err(_) => {
                witness("C19", "vm.model", format!("ops={ops:?}"), "PANIC".into(), "no panic".into());
                witness("C01", "vm.panic", format!("ops={ops:?}"), "PANIC".into(), "no panic".into());
            }
        }
    }
    println!("CASES c19_vector_map {cases}");
}

/// naive partition model: class id per element + bag per class
#[derive(Clone, Default)]
struct Naive { class: BTreeMap<usize, usize>, data: BTreeMap<usize, Bag>, has: BTreeMap<usize, bool> }
impl Naive {
    fn ensure(&mut self, x: usize) { self.class.entry(x).or_insert(x); }
    fn union(&mut self, a: usize, b: usize) {
        self.ensure(a);
        self.ensure(b);
        let (ca, cb) = (self.class[&a], self.class[&b]);
        if ca == cb { return; }
        for c in self.class.values_mut() { if *c == cb { *c = ca; } }
        let db = self.data.remove(&cb);
        if let Some(db) = db {
            let da = self.data.remove(&ca).unwrap_or_default();
            self.data.insert(ca, da.combine(db));
        } else if !self.data.contains_key(&ca) {
            // union creates the (identity) data entry for the surviving class
            self.data.insert(ca, Bag::identity());
        }
    }
    fn add(&mut self, a: usize, d: Bag) {
        self.ensure(a);
        let c = self.class[&a];
        let old = self.data.remove(&c).unwrap_or_default();
        self.data.insert(c, old.combine(d));
    }
    fn set(&mut self, a: usize, d: Bag) {
        self.ensure(a);
        let c = self.class[&a];
        self.data.insert(c, d);
    }
    fn same(&self, a: usize, b: usize) -> bool { self.class.get(&a).copied().unwrap_or(a) == self.class.get(&b).copied().unwrap_or(b) }
    fn get(&self, a: usize) -> Bag { self.data.get(&self.class.get(&a).copied().unwrap_or(a)).cloned().unwrap_or_default() }
}

#[test]
fn c19_disjoint_set_vs_naive_partition() {
    std::panic::set_hook(Box::new(|_| {}));
    let mut cases = 0u64;
    for round in 0..400u64 {
        let mut rng = Rng::seeded(1950 + round);
        let universe = if round % 2 == 0 { 4u64 } else { 24 };
        let len = if round % 2 == 0 { 7 } else { 80 };
        let ops: Vec<(u64, usize, usize, u16)> = (0..len).map(|_| (rng.below(6), rng.below(universe) as usize, rng.below(universe) as usize, rng.below(1000) as u16)).collect();
        let o2 = ops.clone();
        let res = catch_unwind(move || {
            let mut ds: DisjointSet<usize, Bag> = DisjointSet::new();
            let mut nm = Naive::default();
            for (i, (op, a, b, d)) in o2.iter().enumerate() {
                match op {
                    0 => { ds.insert(*a); nm.ensure(*a); }
                    1 | 2 => { ds.union(a, b); nm.union(*a, *b); }
                    3 => { ds.add_data(a, Bag(vec![*d])); nm.add(*a, Bag(vec![*d])); }
                    4 => { ds.set_data(a, Bag(vec![*d])); nm.set(*a, Bag(vec![*d])); }
                    _ => { let _ = ds.find(a); nm.ensure(*a); }
                }
                // enumeration (twice: enumerating must not change anything): one entry per class, with the class data
                for pass in 0..2 {
                    let sets = ds.sets();
                    let mut classes: Vec<usize> = nm.class.values().copied().collect();
                    classes.sort_unstable();
                    classes.dedup();
                    if sets.len() != classes.len() { return Some((i, format!("sets() pass {pass} lists {} sets", sets.len()), format!("{}", classes.len()))); }
                    for (root, data) in &sets {
                        if data != &nm.get(*root) { return Some((i, format!("sets() pass {pass} gives {data:?} for the set of {root}"), format!("{:?}", nm.get(*root)))); }
                    }
                    let mut vals = ds.values();
                    vals.sort_unstable();
                    let want: Vec<usize> = nm.class.keys().copied().collect();
                    if vals != want { return Some((i, format!("values()={vals:?}"), format!("{want:?}"))); }
                }
                // partition and data agree on every element that the model knows
                let known: Vec<usize> = nm.class.keys().copied().collect();
                for &x in &known {
                    for &y in &known {
                        let same = ds.find(&x) == ds.find(&y);
                        if same != nm.same(x, y) { return Some((i, format!("find({x})==find({y}) is {same}"), format!("{}", nm.same(x, y)))); }
                    }
                    let got = ds.get_data(&x).cloned().unwrap_or_default();
                    if got != nm.get(x) { return Some((i, format!("get_data({x})={got:?}"), format!("{:?}", nm.get(x)))); }
                }
            }
            None
        });
        cases += 1;
        match res {
            Ok(None) => {}
            Ok(Some((i, got, want))) => witness("C19", "ds.model", format!("ops={:?} (0 insert a;1,2 union a b;3 add_data a d;4 set_data a d;5 find a) failing after op #{i}", &ops[..=i]), got, want),
            Err(_) => {
                witness("C19", "ds.model", format!("ops={ops:?}"), "PANIC".into(), "no panic".into());
                witness("C01", "ds.panic", format!("ops={ops:?}"), "PANIC".into(), "no panic".into());
            }
        }
    }
    println!("CASES c19_disjoint_set {cases}");
}

/// the `Combine` instances the forest merges data with: `HashSet` (set union) and `Option<_>` (an absent datum contributes
/// nothing) — identity on both sides, symmetric, associative, on random operands; and a forest whose data is `Option<HashSet>`
#[test]
fn c19_combine_instances_are_monoids() {
    use std::collections::HashSet;
    use storage_layout_extractor::data::{combine::Combine, disjoint_set::DisjointSet};
    let mut rng = Rng::seeded(1919);
    let mut set = |rng: &mut Rng| -> HashSet<u32> { (0..rng.below(5)).map(|_| rng.below(8) as u32).collect() };
    let mut cases = 0;
    for _ in 0..300 {
        let (a, b, c) = (set(&mut rng), set(&mut rng), set(&mut rng));
        let union: HashSet<u32> = a.union(&b).copied().collect();
        if a.clone().combine(b.clone()) != union { witness("C19", "combine.hashset.is_union", format!("{a:?} {b:?}"), format!("{:?}", a.clone().combine(b.clone())), format!("{union:?}")); }
        if a.clone().combine(HashSet::identity()) != a || HashSet::identity().combine(a.clone()) != a { witness("C19", "combine.identity", format!("{a:?}"), "changed by the identity".into(), "unchanged".into()); }
        for (x, y, z) in [(Some(a.clone()), Some(b.clone()), Some(c.clone())), (Some(a.clone()), None, Some(c.clone())), (None, Some(b.clone()), None), (Some(a.clone()), Some(b.clone()), None), (None, None, Some(c.clone()))] {
            let id: Option<HashSet<u32>> = Combine::identity();
            if x.clone().combine(id.clone()) != x || id.clone().combine(x.clone()) != x { witness("C19", "combine.identity", format!("{x:?}"), format!("x+id={:?} id+x={:?}", x.clone().combine(id.clone()), id.combine(x.clone())), "x both ways".into()); }
            if x.clone().combine(y.clone()) != y.clone().combine(x.clone()) { witness("C19", "combine.symmetric", format!("{x:?} {y:?}"), "differs".into(), "equal".into()); }
            if x.clone().combine(y.clone()).combine(z.clone()) != x.clone().combine(y.clone().combine(z.clone())) { witness("C19", "combine.associative", format!("{x:?} {y:?} {z:?}"), "differs".into(), "equal".into()); }
            cases += 1;
        }
    }
    // a forest over Option data: union with a set that has no data keeps the data; adding None changes nothing
    let mut ds: DisjointSet<usize, Option<HashSet<u32>>> = DisjointSet::new();
    ds.add_data(&0, Some(HashSet::from([7])));
    ds.insert(1);
    ds.union(&0, &1);
    ds.add_data(&1, None);
    ds.add_data(&3, Some(HashSet::from([1, 2])));
    ds.add_data(&3, None);
    ds.union(&4, &3);
    for (v, want) in [(0usize, HashSet::from([7u32])), (1, HashSet::from([7])), (3, HashSet::from([1, 2])), (4, HashSet::from([1, 2]))] {
        let got = ds.get_data(&v).cloned().flatten();
        if got.as_ref() != Some(&want) { witness("C19", "ds.data_combined_once", format!("Option data, element {v}"), format!("{got:?}"), format!("Some({want:?})")); }
    }
    println!("CASES c19_combine {cases}");
}

/// building a `VectorMap` from a vector of pairs is the same as inserting the pairs one by one: later pairs overwrite
/// earlier ones with the same key, and the reported length counts keys, not pairs
#[test]
fn c19_vector_map_from_pairs_is_sequential_insertion() {
    let mut rng = Rng::seeded(1920);
    let mut cases = 0;
    for _ in 0..400 {
        let n = rng.below(12) as usize;
        let pairs: Vec<(usize, u32)> = (0..n).map(|_| (rng.below(8) as usize, rng.below(1000) as u32)).collect();
        let model: BTreeMap<usize, u32> = pairs.iter().copied().collect();
        let mut vm: VectorMap<usize, u32> = VectorMap::from(pairs.clone());
        cases += 1;
        let mut bad = vm.len() != model.len() || vm.is_empty() != model.is_empty();
        for k in 0..10usize { if vm.get(&k) != model.get(&k) { bad = true; } }
        // removing every key empties it
        let mut after = vm.len();
        for k in model.keys() { vm.remove(k); after = vm.len(); }
        if !model.is_empty() && (after != 0 || !vm.is_empty()) { bad = true; }
        if bad {
            witness("C19", "vm.model", format!("VectorMap::from({pairs:?})"), format!("len {} / after removing every key len {after}", VectorMap::<usize, u32>::from(pairs.clone()).len()), format!("the map {model:?} (len {})", model.len()));
            break;
        }
    }
    println!("CASES c19_from_pairs {cases}");
}
