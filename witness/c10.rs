//! C10: disassembly is total, lossless, offset-preserving; push data are never instructions.
use std::panic::catch_unwind;

use storage_layout_extractor::disassembly::InstructionStream;

use crate::{witness, Rng};

fn check(bytes: &[u8]) {
    let b2 = bytes.to_vec();
    let r = catch_unwind(move || InstructionStream::try_from(b2.as_slice()).map(|s| (s.len(), s.as_bytecode())).map_err(|e| format!("{e:?}")));
    match r {
        Err(_) => {
            witness("C10", "dis.total", format!("{bytes:02x?}"), "PANIC".into(), "Ok".into());
            witness("C01", "dis.panic", format!("{bytes:02x?}"), "PANIC".into(), "no panic".into());
        }
        Ok(Err(e)) => witness("C10", "dis.total", format!("{bytes:02x?}"), format!("Err({e})"), "Ok".into()),
        Ok(Ok((len, enc))) => {
            if len != bytes.len() { witness("C10", "dis.index_is_offset", format!("{bytes:02x?}"), format!("len {len}"), format!("{}", bytes.len())); }
            if enc != bytes { witness("C10", "dis.lossless", format!("{bytes:02x?}"), format!("{enc:02x?}"), "the input".into()); }
        }
    }
}

#[test]
fn c10_disassemble_small_exhaustive_and_truncations() {
    std::panic::set_hook(Box::new(|_| {}));
    let mut cases = 0u64;
    for a in 0..=255u8 {
        check(&[a]);
        cases += 1;
        for b in 0..=255u8 {
            check(&[a, b]);
            cases += 1;
        }
    }
    // every PUSHn followed by every truncation length of its immediate, also behind a leading byte
    for n in 1..=32usize {
        for k in 0..=n {
            let mut v = vec![0x5f + n as u8];
            v.extend(std::iter::repeat(0x5b).take(k));
            check(&v);
            let mut w = vec![0x00];
            w.extend(&v);
            check(&w);
            let mut x = v.clone();
            x.push(0x5b);
            check(&x);
            cases += 3;
        }
    }
    let mut rng = Rng::seeded(10);
    for _ in 0..400 {
        let n = 1 + rng.below(200) as usize;
        let v: Vec<u8> = (0..n).map(|_| rng.next() as u8).collect();
        check(&v);
        cases += 1;
    }
    println!("CASES c10_disassemble {cases}");
}

/// push immediates are never jump destinations: PUSH1 0x5b ... jump into it must not be accepted
#[test]
fn c10_push_data_is_not_a_jumpdest() {
    use storage_layout_extractor::opcode::control::JumpDest;
    let is_jd = |t: &storage_layout_extractor::disassembly::ExecutionThread, i: u32| t.instruction(i).map_or(false, |o| o.as_ref().as_any().is::<JumpDest>());
    for n in 1..=32usize {
        let mut v = vec![0x5f + n as u8];
        v.extend(std::iter::repeat(0x5b).take(n));
        v.push(0x5b);
        let is = InstructionStream::try_from(v.as_slice()).unwrap();
        let t = is.new_thread(0).unwrap();
        for i in 1..=n as u32 {
            if is_jd(&t, i) {
                witness("C10", "dis.immediates_are_not_instructions", format!("{v:02x?} offset {i}"), "JumpDest".into(), "padding".into());
                witness("C08", "dis.jumpdest_is_boundary", format!("{v:02x?} offset {i}"), "push data is a JumpDest".into(), "never a jump destination".into());
            }
        }
        if !is_jd(&t, n as u32 + 1) { witness("C10", "dis.jumpdest_kept", format!("{v:02x?} offset {}", n + 1), "not JumpDest".into(), "JumpDest".into()); }
    }
    // a PUSH cut short by the end of the code: the bytes present are push data too, never instructions
    for n in 1..=32usize {
        for k in 0..n {
            for fill in [0x5bu8, 0x60, 0x00] {
                let mut v = vec![0x00, 0x5f + n as u8];
                v.extend(std::iter::repeat(fill).take(k));
                let Ok(is) = InstructionStream::try_from(v.as_slice()) else { continue };
                let t = is.new_thread(0).unwrap();
                for i in 1..v.len() as u32 {
                    if is_jd(&t, i) {
                        witness("C10", "dis.truncated_push_data_are_not_instructions", format!("{v:02x?} offset {i}"), "JumpDest".into(), "Invalid".into());
                        witness("C08", "dis.jumpdest_is_boundary", format!("{v:02x?} offset {i}"), "push data is a JumpDest".into(), "never a jump destination".into());
                    }
                    let b = t.instruction(i).unwrap().as_ref().encode();
                    if b != vec![v[i as usize]] { witness("C10", "dis.truncated_push_is_invalid_bytes", format!("{v:02x?} offset {i}"), format!("{b:02x?}"), format!("[{:02x}]", v[i as usize])); }
                }
            }
        }
    }
    println!("CASES c10_push_data 32");
}

/// "random strings up to the 24 KiB contract limit" and beyond: size alone never makes disassembly fail
#[test]
fn c10_large_inputs_disassemble() {
    for len in [24575usize, 24576, 24577, 49152, 70000] {
        let v: Vec<u8> = (0..len).map(|i| (i * 7 + 1) as u8).collect();
        check(&v);
    }
    println!("CASES c10_large 5");
}

/// every offset holds what its byte class says: an instruction boundary re-encodes to its own byte (a complete PUSHn to
/// opcode + immediate), an immediate of a complete push is silent padding, a cut-short push and its data are single bytes
#[test]
fn c10_entries_match_the_byte_classes() {
    std::panic::set_hook(Box::new(|_| {}));
    let mut inputs: Vec<Vec<u8>> = vec![];
    for a in 0..=255u8 { inputs.push(vec![a]); for b in [0x00u8, 0x5b, 0x60, 0x7f, 0xfe] { inputs.push(vec![a, b]); inputs.push(vec![a, b, 0x5b]); } }
    for n in 1..=32usize { for k in 0..=n + 1 { let mut v = vec![0x01, 0x5f + n as u8]; v.extend(std::iter::repeat(0x5b).take(k)); inputs.push(v); } }
    let mut rng = Rng::seeded(1010);
    for _ in 0..300 { let n = 1 + rng.below(80) as usize; inputs.push((0..n).map(|_| [0x60u8, 0x61, 0x7f, 0x5b, 0x00, 0x01, 0x56, 0xff][rng.below(8) as usize]).collect()); }
    let mut cases = 0;
    for v in inputs {
        let Ok(Ok(is)) = std::panic::catch_unwind(|| InstructionStream::try_from(v.as_slice())) else { continue };
        let t = is.new_thread(0).unwrap();
        let mut i = 0usize;
        while i < v.len() {
            let b = v[i];
            let enc = |j: usize| t.instruction(j as u32).map(|o| o.as_ref().encode()).unwrap_or_default();
            if (0x60..=0x7f).contains(&b) {
                let n = (b - 0x5f) as usize;
                if i + n + 1 <= v.len() {
                    // complete push
                    let want: Vec<u8> = v[i..=i + n].to_vec();
                    if enc(i) != want { witness("C10", "dis.complete_push_is_a_push", format!("{v:02x?} offset {i}"), format!("{:02x?}", enc(i)), format!("{want:02x?}")); }
                    for j in i + 1..=i + n { if !enc(j).is_empty() { witness("C10", "dis.immediates_are_nop", format!("{v:02x?} offset {j}"), format!("{:02x?}", enc(j)), "[]".into()); } }
                    i += n + 1;
                    continue;
                }
                // cut short: the opcode and every byte present are single Invalid bytes
                for j in i..v.len() { if enc(j) != vec![v[j]] { witness("C10", "dis.truncated_push_is_invalid_bytes", format!("{v:02x?} offset {j}"), format!("{:02x?}", enc(j)), format!("[{:02x}]", v[j])); } }
                break;
            }
            if enc(i) != vec![b] { witness("C10", "dis.boundary_reencodes_to_its_byte", format!("{v:02x?} offset {i}"), format!("{:02x?}", enc(i)), format!("[{b:02x}]")); }
            i += 1;
        }
        cases += 1;
    }
    println!("CASES c10_classes {cases}");
}

/// outcome of running the VM in strict mode: (error payload names, stored states, per-offset visit totals), None on a panic
fn vm_outcome(code: &[u8]) -> Option<(Vec<String>, usize, Vec<usize>)> { vm_outcome_mode(code, false) }
fn vm_outcome_mode(code: &[u8], permissive: bool) -> Option<(Vec<String>, usize, Vec<usize>)> {
    use storage_layout_extractor::{vm::{Config, VM}, watchdog::LazyWatchdog};
    let c = code.to_vec();
    catch_unwind(move || {
        let is = InstructionStream::try_from(c.as_slice()).ok()?;
        let mut vm = VM::new(is, Config::default().with_permissive_errors(permissive), LazyWatchdog.in_rc()).ok()?;
        let errs = match vm.execute() { Ok(()) => vec![], Err(e) => e.payloads().iter().map(|x| format!("{:?}", x.payload).chars().take(60).collect()).collect() };
        let res = vm.consume();
        let visits = (0..c.len() as u32).map(|ip| res.states.iter().map(|st| st.visited_instructions().visit_count(ip).unwrap_or(0)).sum()).collect();
        Some((errs, res.states.len(), visits))
    }).ok().flatten()
}

/// "bytes with no assigned opcode behave as INVALID" and "a PUSH cut short ... is tolerated": executing such a byte must be
/// indistinguishable (errors, collected states, executed offsets) from executing 0xfe at the same place.
#[test]
fn c10_unassigned_bytes_and_cut_pushes_execute_as_invalid() {
    std::panic::set_hook(Box::new(|_| {}));
    let mut assigned: Vec<u8> = crate::c07_diff::evm_arity().into_iter().map(|t| t.0).collect();
    assigned.extend([0x00, 0x56, 0x57, 0xf3, 0xfd, 0xfe, 0xff]);
    let mut cases = 0;
    let mut cmp = |what: String, code: Vec<u8>, reference: Vec<u8>| {
        cases += 1;
        for permissive in [false, true] {
            let (got, want) = (vm_outcome_mode(&code, permissive), vm_outcome_mode(&reference, permissive));
            if got != want {
                witness("C10", "dis.unassigned_byte_behaves_as_invalid", format!("{what} (permissive={permissive}): {code:02x?}"), format!("(errors, states, visits) = {got:?}"), format!("as with INVALID in its place: {want:?}"));
            }
        }
    };
    for b in 0..=255u8 {
        if assigned.contains(&b) { continue; }
        for prefix in [vec![], vec![0x5b], vec![0x60, 0x01, 0x50]] {
            let tail = [0x60u8, 0x01, 0x60, 0x09, 0x55, 0x00];
            let mk = |x: u8| { let mut c = prefix.clone(); c.push(x); c.extend(tail); c };
            cmp(format!("unassigned byte {b:#04x}"), mk(b), mk(0xfe));
        }
    }
    // a PUSHn cut short by the end of the code, with 0 .. n-1 of its bytes present (taken from 0x5b / 0x55 / 0x00 so that
    // a mis-decoded tail would do something visible), reached by straight-line execution and by a jump over dead code
    for n in 1..=32usize {
        for present in 0..n {
            for fill in [0x5bu8, 0x55, 0x00] {
                for prefix in [vec![0x60u8, 0x01, 0x50], vec![0x60, 0x04, 0x56, 0x00, 0x5b]] {
                    let mut code = prefix.clone();
                    let mut reference = prefix.clone();
                    code.push(0x5f + n as u8);
                    code.extend(std::iter::repeat(fill).take(present));
                    reference.extend(std::iter::repeat(0xfe).take(present + 1));
                    cmp(format!("PUSH{n} with {present} of its bytes"), code, reference);
                }
            }
        }
    }
    println!("CASES c10_exec_as_invalid {cases}");
}

/// "bytes that are push immediates are never instructions (and so never jump destinations)", at execution level and in both
/// error modes: a JUMP / JUMPI whose constant target is an immediate byte (0x5b) of a COMPLETE PUSHn never transfers
/// control there — neither the immediate bytes nor the code behind them are executed
#[test]
fn c10_jumps_never_land_on_push_immediates() {
    std::panic::set_hook(Box::new(|_| {}));
    let mut cases = 0;
    for n in [1usize, 2, 5, 32] {
        for which in 0..n.min(3) {
            for jumpi in [false, true] {
                for permissive in [false, true] {
                    // [PUSH1 1]? PUSH1 t JUMP|JUMPI STOP PUSHn 5b.. ; PUSH1 1 PUSH1 0 SSTORE STOP
                    let mut code: Vec<u8> = if jumpi { vec![0x60, 0x01] } else { vec![] };
                    code.extend([0x60, 0x00]);
                    let jump_at = code.len();
                    code.extend([if jumpi { 0x57 } else { 0x56 }, 0x00, 0x5f + n as u8]);
                    let first_imm = code.len();
                    code.extend(std::iter::repeat(0x5b).take(n));
                    let behind = code.len();
                    code.extend([0x60, 0x01, 0x60, 0x00, 0x55, 0x00]);
                    code[jump_at - 1] = (first_imm + which) as u8;
                    cases += 1;
                    let Some((_, _, visits)) = vm_outcome_mode(&code, permissive) else { continue };
                    let bad: Vec<usize> = (first_imm - 1..code.len()).filter(|&o| visits[o] > 0).collect();
                    if !bad.is_empty() {
                        witness("C10", "dis.immediates_are_never_jump_destinations", format!("{} to offset {} (immediate of a complete PUSH{n}), permissive={permissive}: {code:02x?}", if jumpi { "JUMPI" } else { "JUMP" }, first_imm + which), format!("executed offsets {bad:?} (the code behind the push starts at {behind})"), "none of them: push data is not a jump destination".into());
                    }
                }
            }
        }
    }
    println!("CASES c10_jump_into_immediates {cases}");
}

/// every string of 3 to 5 bytes over an alphabet of bytes that mean something to somebody (opcodes, push opcodes, the
/// CBOR map markers a1..a4 of compiler metadata, small lengths): one entry per byte, lossless, whatever the tail looks like
#[test]
fn c10_structured_short_strings_keep_one_entry_per_byte() {
    std::panic::set_hook(Box::new(|_| {}));
    let alphabet = [0x00u8, 0x01, 0x02, 0x04, 0x33, 0x5b, 0x60, 0x62, 0x7f, 0xa1, 0xa2, 0xa4, 0x64, 0xfe];
    let mut cases = 0u64;
    for len in 3..=5usize {
        let total = alphabet.len().pow(len as u32);
        // all strings of length 3 and 4, every 7th of length 5
        let step = if len == 5 { 7 } else { 1 };
        let mut i = 0usize;
        while i < total {
            let mut v = Vec::with_capacity(len);
            let mut x = i;
            for _ in 0..len { v.push(alphabet[x % alphabet.len()]); x /= alphabet.len(); }
            check(&v);
            cases += 1;
            i += step;
        }
    }
    // and longer strings ending in a metadata-like trailer: <code> a1..a4 <payload> <big-endian length of the trailer>
    for marker in [0xa1u8, 0xa2, 0xa3, 0xa4] {
        for payload in 0..40usize {
            let mut v = vec![0x60, 0x01, 0x60, 0x00, 0x55, 0x00, marker];
            v.extend(std::iter::repeat(0x64).take(payload));
            let l = (payload + 1) as u16;
            v.extend(l.to_be_bytes());
            check(&v);
            cases += 1;
        }
    }
    println!("CASES c10_structured_strings {cases}");
}
