//! C03: limit primitives and the bounds they enforce on real runs.
use storage_layout_extractor::{
    disassembly::InstructionStream,
    vm::{data::VisitedOpcodes, Config, VM},
    watchdog::LazyWatchdog,
};

use crate::{witness, Rng};

#[test]
fn c03_visited_opcodes_counts() {
    for max in [1usize, 2, 3, 10] {
        let mut t = VisitedOpcodes::new(20, max);
        for k in 1..=(max + 2) {
            t.mark_visited(7).unwrap();
            let c = t.visit_count(7).unwrap();
            if c != k { witness("C03", "limits.mark_visited.increments_exactly_one", format!("max={max} marks={k}"), format!("{c}"), format!("{k}")); }
            let at = t.at_visit_limit(7).unwrap();
            if at != (k >= max) { witness("C03", "limits.at_visit_limit.exact_comparison", format!("max={max} count={k}"), format!("{at}"), format!("{}", k >= max)); }
            if t.visit_count(8).unwrap() != 0 { witness("C03", "limits.mark_visited.frame", format!("max={max}"), "other key changed".into(), "0".into()); }
        }
        if t.mark_visited(20).is_ok() { witness("C03", "limits.mark_visited.out_of_bounds_unchanged", "ip=20 len=20".into(), "Ok".into(), "Err".into()); }
    }
    println!("CASES c03_visited_opcodes 4");
}

/// tight loops and fork bombs: per-state visit counts and per-target fork counts respect the limits
#[test]
fn c03_execution_stays_within_limits() {
    let programs: Vec<(&str, Vec<u8>)> = vec![
        ("self-loop JUMPDEST PUSH1 0 JUMP", vec![0x5b, 0x60, 0x00, 0x56]),
        ("cond loop JUMPDEST CALLDATASIZE PUSH1 0 JUMPI STOP", vec![0x5b, 0x36, 0x60, 0x00, 0x57, 0x00]),
        ("two JUMPI to one target", vec![0x36, 0x60, 0x0a, 0x57, 0x36, 0x60, 0x0a, 0x57, 0x00, 0x00, 0x5b, 0x60, 0x00, 0x56]),
        ("growing stack loop", vec![0x5b, 0x60, 0x01, 0x36, 0x60, 0x00, 0x57, 0x00]),
        ("self-loop with code behind the JUMP", vec![0x5b, 0x60, 0x00, 0x56, 0x00, 0x00]),
        ("backward JUMP loop with JUMPI exit", vec![0x5b, 0x36, 0x60, 0x0a, 0x57, 0x60, 0x01, 0x60, 0x00, 0x56, 0x5b, 0x00]),
        ("jump sled", { let mut v = vec![]; for k in 0..8u8 { v.extend([0x60, 4 * (k + 1), 0x56, 0x5b]); } v.push(0x00); v.insert(0, 0x5b); for k in 0..8usize { v[2 + 4 * k] += 1; } v }),
    ];
    let mut cases = 0;
    let mut rng = Rng::seeded(3);
    for (name, code) in programs {
        for _ in 0..6 {
            let iters = 1 + rng.below(12) as usize;
            let forks = 1 + rng.below(20) as usize;
            let cfg = Config::default().with_max_iterations_per_opcode(iters).with_max_forks_per_fork_target(forks).with_permissive_errors(true);
            let is = InstructionStream::try_from(code.as_slice()).unwrap();
            let mut vm = VM::new(is, cfg, LazyWatchdog.in_rc()).unwrap();
            let _ = vm.execute();
            let jt = vm.jump_targets().clone();
            let res = vm.consume();
            for st in &res.states {
                for ip in 0..code.len() as u32 {
                    let c = st.visited_instructions().visit_count(ip).unwrap_or(0);
                    // D14 (known finding): the first instruction of a forked thread (a JUMPDEST that is the target of a
                    // JUMPI) is executed without the visit-limit check, so it can exceed the limit by exactly one
                    let jumpi_target = code[ip as usize] == 0x5b && code.windows(3).any(|w| w[0] == 0x60 && w[1] as u32 == ip && w[2] == 0x57);
                    let ob = if c == iters + 1 && jumpi_target { "limits.visit_count_within_iteration_limit.forked_jumpdest_plus_one" } else { "limits.visit_count_within_iteration_limit" };
                    if c > iters { witness("C03", ob, format!("{name} code={code:02x?} iterations={iters} ip={ip}"), format!("{c}"), format!("<= {iters}")); }
                }
            }
            for ip in 0..code.len() as u32 {
                if let Ok(c) = jt.cond_jump_count(ip) {
                    if c > forks { witness("C03", "limits.fork_to.preserves_fork_bound", format!("{name} forks={forks} target={ip}"), format!("{c}"), format!("<= {forks}")); }
                }
            }
            cases += 1;
        }
    }
    println!("CASES c03_execution_limits {cases}");
}

/// gas: a forked thread inherits the gas already consumed, and no thread runs on once it is over the limit
#[test]
fn c03_gas_is_inherited_and_bounded() {
    use storage_layout_extractor::vm::{state::VMState, thread::VMThread};
    let is = InstructionStream::try_from(vec![0x5bu8, 0x5b, 0x5b, 0x5b, 0x5b, 0x5b, 0x00].as_slice()).unwrap();
    let state = VMState::new_at_start(is.len() as u32, Config::default());
    let mut t = VMThread::new(state, is.new_thread(0).unwrap());
    t.consume_gas(1234);
    let f = t.fork(4);
    if f.gas_usage() != 1234 { witness("C03", "limits.fork.inherits_gas", "consume_gas(1234); fork(4)".into(), format!("{}", f.gas_usage()), "1234".into()); }
    if t.gas_usage() != 1234 { witness("C03", "limits.consume_gas.adds_exactly", "consume_gas(1234)".into(), format!("{}", t.gas_usage()), "1234".into()); }
    // a chain of forks under a small gas limit: every stored state's path cost stays near the limit
    // CALLDATASIZE PUSH1 d JUMPI ... repeated; each stage costs 2+3+10 = 15 gas; limit 40 => at most ~4 stages run
    let stages = 12usize;
    let mut code: Vec<u8> = vec![];
    for s in 0..stages {
        let dest = ((s + 1) * 6) as u8;
        code.extend([0x36, 0x60, dest, 0x57, 0x00, 0x5b]);
    }
    code.extend([0x60, 0x01, 0x60, 0x09, 0x55, 0x00]);
    let limit = 40usize;
    let is = InstructionStream::try_from(code.as_slice()).unwrap();
    let mut vm = VM::new(is, Config::default().with_gas_limit(limit).with_permissive_errors(true), LazyWatchdog.in_rc()).unwrap();
    let _ = vm.execute();
    let res = vm.consume();
    let cost = |b: u8| -> usize { match b { 0x36 => 2, 0x60 => 3, 0x57 => 10, 0x5b => 1, 0x55 => 100, _ => 0 } };
    for st in &res.states {
        let mut spent = 0usize;
        let mut ip = 0usize;
        while ip < code.len() {
            let c = st.visited_instructions().visit_count(ip as u32).unwrap_or(0);
            spent += c * cost(code[ip]);
            ip += if code[ip] == 0x60 { 2 } else { 1 };
        }
        // one instruction may start while at the limit (the check is after the fact); a forked child is not charged for its JUMPI
        if spent > limit + 100 + 10 * stages { witness("C03", "limits.gas_limit_respected", format!("fork chain code={code:02x?} gas_limit={limit}"), format!("a path consumed at least {spent} gas"), format!("about {limit}")); }
    }
    // no forks at all: 400 x (PUSH0 POP) costs 1600; every limit below that must cut the path short, in both error modes
    let line: Vec<u8> = std::iter::repeat([0x5fu8, 0x50]).take(400).flatten().chain([0x00]).collect();
    for permissive in [false, true] {
        for limit in [50usize, 200, 777, 1500] {
            let is = InstructionStream::try_from(line.as_slice()).unwrap();
            let mut vm = VM::new(is, Config::default().with_gas_limit(limit).with_permissive_errors(permissive), LazyWatchdog.in_rc()).unwrap();
            let _ = vm.execute();
            let res = vm.consume();
            for st in &res.states {
                let executed: usize = (0..line.len() as u32).map(|ip| st.visited_instructions().visit_count(ip).unwrap_or(0)).sum();
                if executed * 2 > limit + 2 + 2 { witness("C03", "limits.gas_limit_respected", format!("400 x (PUSH0 POP) gas_limit={limit} permissive={permissive}"), format!("{executed} instructions = {} gas", executed * 2), format!("<= {limit} (+ one instruction)")); }
            }
        }
    }
    println!("CASES c03_gas 10");
}

/// "analysis terminates": small programs of every ending shape — the last bytes are the immediate of a complete PUSHn, a
/// cut-short PUSHn, a JUMPDEST, a plain opcode — reached straight-line, through JUMP and by a forked thread, under small
/// limits; VM::execute must return within a generous wall-clock budget (a watchdog flag is raised after it so that a
/// looping run that still polls ends; a run that does not even poll is left behind and reported).
#[test]
fn c03_execution_of_every_ending_shape_returns() {
    use std::{sync::{atomic::{AtomicBool, Ordering}, mpsc, Arc}, time::Duration};
    use storage_layout_extractor::watchdog::FlagWatchdog;
    std::panic::set_hook(Box::new(|_| {}));
    let endings: Vec<(&str, Vec<u8>)> = vec![
        ("complete PUSH1", vec![0x60, 0x2a]), ("complete PUSH2", vec![0x61, 0xbe, 0xef]), ("complete PUSH32", { let mut v = vec![0x7f]; v.extend([0x5b; 32]); v }),
        ("cut-short PUSH2", vec![0x61, 0xaa]), ("cut-short PUSH32", vec![0x7f, 0x5b, 0x5b]), ("bare PUSH1", vec![0x60]),
        ("JUMPDEST", vec![0x5b]), ("ADD", vec![0x01]), ("POP of a push", vec![0x60, 0x01, 0x50]), ("PUSH0", vec![0x5f]), ("DUP1 of a push", vec![0x5f, 0x80]),
    ];
    let mut progs: Vec<(String, Vec<u8>)> = vec![];
    for (name, e) in &endings {
        progs.push((format!("{name} alone"), e.clone()));
        let mut p = vec![0x60, 0x01, 0x60, 0x00, 0x55]; p.extend(e); progs.push((format!("sstore then {name}"), p));
        // CALLDATASIZE PUSH1 5 JUMPI STOP JUMPDEST <ending>
        let mut p = vec![0x36, 0x60, 0x05, 0x57, 0x00, 0x5b]; p.extend(e); progs.push((format!("forked thread runs into {name}"), p));
        // PUSH1 3 JUMP JUMPDEST <ending>
        let mut p = vec![0x60, 0x03, 0x56, 0x5b]; p.extend(e); progs.push((format!("JUMP then {name}"), p));
        // loop head before the ending: JUMPDEST CALLDATASIZE PUSH1 0 JUMPI <ending>
        let mut p = vec![0x5b, 0x36, 0x60, 0x00, 0x57]; p.extend(e); progs.push((format!("loop then {name}"), p));
    }
    let n = progs.len();
    let mut hung = 0;
    for (what, code) in progs {
        for permissive in [false, true] {
            // every run that does not return leaves a spinning thread behind: three are enough to report
            if hung >= 3 { continue; }
            let (tx, rx) = mpsc::channel();
            let flag = Arc::new(AtomicBool::new(false));
            let (c2, f2) = (code.clone(), flag.clone());
            let _ = std::thread::spawn(move || {
                let r = std::panic::catch_unwind(move || {
                    let Ok(is) = InstructionStream::try_from(c2.as_slice()) else { return };
                    let cfg = Config::default().with_permissive_errors(permissive).with_max_iterations_per_opcode(3).with_max_forks_per_fork_target(4);
                    let Ok(mut vm) = VM::new(is, cfg, FlagWatchdog::new(f2).polling_every(50).in_rc()) else { return };
                    let _ = vm.execute();
                });
                let _ = tx.send(r.is_ok());
            });
            match rx.recv_timeout(Duration::from_secs(30)) {
                Ok(_) => {}
                Err(_) => {
                    hung += 1;
                    flag.store(true, Ordering::Relaxed);
                    let stopped = rx.recv_timeout(Duration::from_secs(5)).is_ok();
                    witness("C03", "limits.execution_returns", format!("{what} (permissive={permissive}): {code:02x?}"), format!("VM::execute did not return within 30 s ({})", if stopped { "ended by the watchdog afterwards" } else { "and does not poll the watchdog either" }), "returns (3 iterations per opcode, 4 forks per target, default gas)".into());
                }
            }
        }
    }
    println!("CASES c03_ending_shapes {n}");
}

/// runs VM::execute on a thread; Ok if it returned within `secs`, Err(stopped_by_watchdog_afterwards) otherwise
fn execute_returns_within(code: &[u8], permissive: bool, secs: u64) -> Result<(), bool> {
    use std::{sync::{atomic::{AtomicBool, Ordering}, mpsc, Arc}, time::Duration};
    use storage_layout_extractor::watchdog::FlagWatchdog;
    let (tx, rx) = mpsc::channel();
    let flag = Arc::new(AtomicBool::new(false));
    let (c2, f2) = (code.to_vec(), flag.clone());
    let _ = std::thread::spawn(move || {
        let r = std::panic::catch_unwind(move || {
            let Ok(is) = InstructionStream::try_from(c2.as_slice()) else { return };
            let cfg = Config::default().with_permissive_errors(permissive);
            let Ok(mut vm) = VM::new(is, cfg, FlagWatchdog::new(f2).polling_every(1000).in_rc()) else { return };
            let _ = vm.execute();
        });
        let _ = tx.send(r.is_ok());
    });
    match rx.recv_timeout(Duration::from_secs(secs)) {
        Ok(_) => Ok(()),
        Err(_) => { flag.store(true, Ordering::Relaxed); Err(rx.recv_timeout(Duration::from_secs(10)).is_ok()) }
    }
}

/// every instruction that takes a size / length operand, with that operand (and the others) at the boundary constants: the
/// work done for one instruction is bounded by the configured single-operation memory limit, so execution returns
#[test]
fn c03_size_operands_at_the_boundaries_return() {
    std::panic::set_hook(Box::new(|_| {}));
    let one = ethnum::U256::ONE;
    let bw = [ethnum::U256::new(32), ethnum::U256::new(1 << 20), ethnum::U256::new(1 << 32), ethnum::U256::new((1u128 << 64) - 1), ethnum::U256::new(1u128 << 64), ethnum::U256::new((1u128 << 64) + 64), one << 128u32, one << 255u32, ethnum::U256::MAX];
    // (opcode, number of stack operands)
    let ops: [(u8, usize); 17] = [(0x20, 2), (0x37, 3), (0x39, 3), (0x3c, 4), (0x3e, 3), (0xa0, 2), (0xa1, 3), (0xf0, 3), (0xf1, 7), (0xf2, 7), (0xf3, 2), (0xf4, 6), (0xf5, 4), (0xfa, 6), (0xfd, 2), (0x51, 1), (0x52, 2)];
    let mut cases = 0;
    let mut hung = 0;
    for (op, n) in ops {
        for k in 0..n {
            for w in bw {
                if hung >= 3 { continue; }
                // operand k (pushed first = deepest) is the boundary word, the others are small
                let mut code = vec![];
                for j in 0..n { code.push(0x7f); code.extend((if j == k { w } else { ethnum::U256::new(64) }).to_be_bytes()); }
                code.extend([op, 0x00]);
                cases += 1;
                if let Err(stopped) = execute_returns_within(&code, true, 40) {
                    hung += 1;
                    witness("C03", "limits.execution_returns", format!("opcode {op:#04x} with operand {k} (pushed first = deepest) = {w:#x}: {code:02x?}"), format!("VM::execute did not return within 40 s ({})", if stopped { "ended by the watchdog afterwards" } else { "and does not poll the watchdog either" }), "returns: one instruction's work is bounded by the single-operation memory limit".into());
                }
            }
        }
    }
    println!("CASES c03_size_operands {cases}");
}

/// the configuration builder: every setter sets exactly the field it names and leaves the others alone, in every order
/// (a limit that silently lands in another field changes what "the limits allow" for another property)
#[test]
fn c03_config_setters_set_exactly_their_own_field() {
    let fields = |c: &Config| -> [(&'static str, usize); 6] { [("gas_limit", c.gas_limit), ("maximum_iterations_per_opcode", c.maximum_iterations_per_opcode), ("maximum_forks_per_fork_target", c.maximum_forks_per_fork_target),
        ("value_size_limit", c.value_size_limit), ("single_memory_operation_size_limit", c.single_memory_operation_size_limit), ("permissive_errors", c.permissive_errors as usize)] };
    let setters: [(&'static str, fn(Config, usize) -> Config, &'static [&'static str]); 6] = [
        ("gas_limit", |c, v| c.with_gas_limit(v), &["C03", "C17"]),
        ("maximum_iterations_per_opcode", |c, v| c.with_max_iterations_per_opcode(v), &["C03", "C08"]),
        ("maximum_forks_per_fork_target", |c, v| c.with_max_forks_per_fork_target(v), &["C03", "C08"]),
        ("value_size_limit", |c, v| c.with_value_size_limit(v), &["C18"]),
        ("single_memory_operation_size_limit", |c, v| c.with_memory_max_bytes(v), &["C03", "C18", "C13"]),
        ("permissive_errors", |c, v| c.with_permissive_errors(v != 0), &["C17"]),
    ];
    let mut cases = 0;
    for first in 0..setters.len() {
        for second in 0..setters.len() {
            for (v1, v2) in [(1usize, 0usize), (3, 1), (7, 4096), (usize::MAX, 1)] {
                let mut model: Vec<(&str, usize)> = fields(&Config::default()).to_vec();
                let mut cfg = Config::default();
                for (k, v) in [(first, v1), (second, v2)] {
                    let v = if setters[k].0 == "permissive_errors" { v % 2 } else { v };
                    cfg = (setters[k].1)(cfg, v);
                    for m in model.iter_mut() { if m.0 == setters[k].0 { m.1 = v; } }
                }
                cases += 1;
                let got = fields(&cfg);
                for (g, m) in got.iter().zip(model.iter()) {
                    if g.1 != m.1 {
                        // report under every property the wrongly set field and the setters used belong to
                        let mut props: Vec<&str> = vec![];
                        for k in [first, second] { for p in setters[k].2 { if !props.contains(p) { props.push(p); } } }
                        for s in &setters { if s.0 == g.0 { for p in s.2 { if !props.contains(p) { props.push(p); } } } }
                        for p in props {
                            witness(p, "config.setter_sets_exactly_its_field", format!("Config::default().{}({v1}).{}({v2})", setters[first].0, setters[second].0), format!("{} = {}", g.0, g.1), format!("{} = {}", m.0, m.1));
                        }
                    }
                }
            }
        }
    }
    println!("CASES c03_config {cases}");
}

/// trampolines whose operands were pushed beforehand (`t: JUMPDEST JUMP` / `t: JUMPDEST JUMPI`): how often one thread went
/// round is read off the FINAL STACK DEPTH (two resp. one word consumed per round), independently of the visit counters —
/// no thread executes the jump more often than the iteration limit
#[test]
fn c03_trampoline_rounds_measured_by_stack_depth_stay_within_the_limit() {
    let mut cases = 0;
    for n in [12usize, 40] {
        for limit in [1usize, 2, 3, 5, 9] {
            for (name, jumpi) in [("JUMPDEST JUMP", false), ("JUMPDEST JUMPI", true)] {
                // n x (PUSH1 1)? PUSH1 t ... ; t: JUMPDEST JUMP|JUMPI ; STOP
                let per_round = if jumpi { 2 } else { 1 };
                let mut code: Vec<u8> = vec![];
                for _ in 0..n { if jumpi { code.extend([0x60, 0x01]); } code.extend([0x60, 0x00]); }
                let t = code.len();
                for k in 0..n { let at = (if jumpi { 4 } else { 2 }) * k + (if jumpi { 3 } else { 1 }); code[at] = t as u8; }
                code.extend([0x5b, if jumpi { 0x57 } else { 0x56 }, 0x00]);
                if t > 255 { continue; }
                let cfg = Config::default().with_max_iterations_per_opcode(limit).with_max_forks_per_fork_target(60).with_permissive_errors(true);
                let is = InstructionStream::try_from(code.as_slice()).unwrap();
                let mut vm = VM::new(is, cfg, LazyWatchdog.in_rc()).unwrap();
                let _ = vm.execute();
                let res = vm.consume();
                cases += 1;
                for (i, st) in res.states.iter().enumerate() {
                    let depth = st.stack().depth() as usize;
                    let rounds = (per_round * n).saturating_sub(depth) / per_round;
                    if rounds > limit {
                        witness("C03", "limits.rounds_by_stack_depth_within_iteration_limit", format!("{n} operand sets, trampoline {name}, iteration limit {limit}, fork limit 60: thread {i}"), format!("{rounds} rounds (final stack depth {depth})"), format!("<= {limit}"));
                        break;
                    }
                }
            }
        }
    }
    println!("CASES c03_trampolines {cases}");
}

/// the stages after execution halt too: masked values multiplied / divided by every kind of small and large constant (odd,
/// even but not a power of two, powers of two, boundary words) go through the lifting passes' own loops
#[test]
fn c03_lifting_of_multipliers_and_divisors_returns() {
    use std::{sync::mpsc, time::Duration};
    use storage_layout_extractor::{self as sle, extractor::{chain::{version::EthereumVersion, Chain}, contract::Contract}};
    std::panic::set_hook(Box::new(|_| {}));
    let one = ethnum::U256::ONE;
    let consts = [ethnum::U256::new(3), ethnum::U256::new(6), ethnum::U256::new(10), ethnum::U256::new(12), ethnum::U256::new(100), ethnum::U256::new(1000), ethnum::U256::new(0xff00), ethnum::U256::new(48),
        ethnum::U256::new((1u128 << 63) + (1 << 62)), ethnum::U256::new((1u128 << 64) + 6), (one << 200u32) + (one << 3u32), ethnum::U256::MAX - one, ethnum::U256::new(1 << 20), one << 255u32];
    let mut cases = 0;
    let mut hung = 0;
    for c in consts {
        for shape in 0..3 {
            if hung >= 3 { continue; }
            let mut code: Vec<u8> = vec![];
            let pw = |code: &mut Vec<u8>, w: ethnum::U256| { code.push(0x7f); code.extend(w.to_be_bytes()); };
            match shape {
                // sstore(1, C * (sload(0) & 0xff))
                0 => { code.extend([0x60, 0xff, 0x60, 0x00, 0x54, 0x16]); pw(&mut code, c); code.extend([0x02, 0x60, 0x01, 0x55, 0x00]); }
                // sstore(1, (sload(0) / C) & 0xff)
                1 => { code.extend([0x60, 0xff]); pw(&mut code, c); code.extend([0x60, 0x00, 0x54, 0x04, 0x16, 0x60, 0x01, 0x55, 0x00]); }
                // sstore(1, (cd(0) & 0xffff) * C | (cd(32) & 0xff))
                _ => { code.extend([0x61, 0xff, 0xff, 0x60, 0x00, 0x35, 0x16]); pw(&mut code, c); code.extend([0x02, 0x60, 0xff, 0x60, 0x20, 0x35, 0x16, 0x17, 0x60, 0x01, 0x55, 0x00]); }
            }
            cases += 1;
            let (tx, rx) = mpsc::channel();
            let c2 = code.clone();
            let _ = std::thread::spawn(move || {
                let r = std::panic::catch_unwind(move || {
                    let contract = Contract::new(c2, Chain::Ethereum { version: EthereumVersion::Shanghai });
                    let _ = sle::new(contract, Config::default(), sle::tc::Config::default(), LazyWatchdog.in_rc()).analyze();
                });
                let _ = tx.send(r.is_ok());
            });
            if rx.recv_timeout(Duration::from_secs(60)).is_err() {
                hung += 1;
                witness("C03", "limits.analysis_returns", format!("masked value combined with the constant {c:#x} (shape {shape}): {code:02x?}"), "analyze() did not return within 60 s".into(), "a layout or an error".into());
            }
        }
    }
    println!("CASES c03_lifting_constants {cases}");
}

/// straight-line code that applies a two-operand instruction to its own result over and over (`DUP1 <op>` x 40, x 400): the
/// value doubles with every step unless the size limit culls it, so the analysis halts only if every operator's size is
/// accounted for
#[test]
fn c03_self_applied_binary_operators_halt() {
    use std::{sync::mpsc, time::Duration};
    use storage_layout_extractor::{self as sle, extractor::{chain::{version::EthereumVersion, Chain}, contract::Contract}};
    std::panic::set_hook(Box::new(|_| {}));
    let mut cases = 0;
    let mut hung = 0;
    for op in [0x01u8, 0x02, 0x03, 0x04, 0x05, 0x06, 0x07, 0x0a, 0x0b, 0x10, 0x11, 0x12, 0x13, 0x14, 0x16, 0x17, 0x18, 0x1a, 0x1b, 0x1c, 0x1d] {
        for reps in [40usize, 400] {
            if hung >= 3 { continue; }
            let mut code = vec![0x34u8];
            for _ in 0..reps { code.extend([0x80, op]); }
            code.extend([0x5f, 0x55, 0x00]);
            cases += 1;
            let (tx, rx) = mpsc::channel();
            let c2 = code.clone();
            let _ = std::thread::spawn(move || {
                let r = std::panic::catch_unwind(move || {
                    let contract = Contract::new(c2, Chain::Ethereum { version: EthereumVersion::Shanghai });
                    let _ = sle::new(contract, Config::default(), sle::tc::Config::default(), LazyWatchdog.in_rc()).analyze();
                });
                let _ = tx.send(r.is_ok());
            });
            if rx.recv_timeout(Duration::from_secs(60)).is_err() {
                hung += 1;
                witness("C03", "limits.analysis_returns", format!("CALLVALUE (DUP1 {op:#04x}) x {reps} PUSH0 SSTORE STOP ({} bytes, no loop)", code.len()), "analyze() did not return within 60 s".into(), "a layout or an error".into());
            }
        }
    }
    println!("CASES c03_self_applied_operators {cases}");
}
