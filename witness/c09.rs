//! C09/C07 word semantics: every KnownWord operation against an independent reference of the EVM
//! instruction (written from the EVM definition), on the boundary set squared plus random words.
use std::panic::catch_unwind;

use ethnum::{I256, U256};
use storage_layout_extractor::vm::value::known::KnownWord;

use crate::{boundary_words, witness, Rng};

fn neg(x: U256) -> U256 { (!x).wrapping_add(U256::ONE) }
fn is_neg(x: U256) -> bool { x >> 255u32 == U256::ONE }
fn abs(x: U256) -> U256 { if is_neg(x) { neg(x) } else { x } }

fn r_sdiv(a: U256, b: U256) -> U256 {
    if b == U256::ZERO { return U256::ZERO; }
    let q = abs(a) / abs(b); // |MIN| = 2^255 as unsigned, |MIN|/1 = 2^255 = MIN again: wraps as the EVM does
    if is_neg(a) != is_neg(b) { neg(q) } else { q }
}
fn r_smod(a: U256, b: U256) -> U256 {
    if b == U256::ZERO { return U256::ZERO; }
    let r = abs(a) % abs(b);
    if is_neg(a) { neg(r) } else { r }
}
fn r_exp(a: U256, e: U256) -> U256 {
    // naive left-to-right binary exponentiation over all 256 exponent bits
    let mut r = U256::ONE;
    for i in (0..256u32).rev() {
        r = r.wrapping_mul(r);
        if (e >> i) & U256::ONE == U256::ONE { r = r.wrapping_mul(a); }
    }
    r
}
fn r_shl(s: U256, v: U256) -> U256 { if s >= U256::new(256) { U256::ZERO } else { v << s.as_u32() } }
fn r_shr(s: U256, v: U256) -> U256 { if s >= U256::new(256) { U256::ZERO } else { v >> s.as_u32() } }
fn r_sar(s: U256, v: U256) -> U256 {
    if s >= U256::new(256) { return if is_neg(v) { U256::MAX } else { U256::ZERO }; }
    let k = s.as_u32();
    let l = v >> k;
    if is_neg(v) && k > 0 { l | (U256::MAX << (256 - k)) } else { l }
}
fn b(x: bool) -> U256 { if x { U256::ONE } else { U256::ZERO } }
fn slt(a: U256, c: U256) -> bool { (a ^ (U256::ONE << 255u32)) < (c ^ (U256::ONE << 255u32)) }

type Op = (&'static str, fn(KnownWord, KnownWord) -> KnownWord, fn(U256, U256) -> U256);

fn ops() -> Vec<Op> {
    vec![
        ("add", |a, c| a + c, |a, c| a.wrapping_add(c)),
        ("mul", |a, c| a * c, |a, c| a.wrapping_mul(c)),
        ("sub", |a, c| a - c, |a, c| a.wrapping_sub(c)),
        ("div", |a, c| a / c, |a, c| if c == U256::ZERO { U256::ZERO } else { a / c }),
        ("mod", |a, c| a % c, |a, c| if c == U256::ZERO { U256::ZERO } else { a % c }),
        ("sdiv", |a, c| a.signed_div(c), r_sdiv),
        ("smod", |a, c| a.signed_rem(c), r_smod),
        ("exp", |a, c| a.exp(c), r_exp),
        ("lt", |a, c| a.lt(c), |a, c| b(a < c)),
        ("gt", |a, c| a.gt(c), |a, c| b(a > c)),
        ("slt", |a, c| a.signed_lt(c), |a, c| b(slt(a, c))),
        ("sgt", |a, c| a.signed_gt(c), |a, c| b(slt(c, a))),
        ("eq", |a, c| a.eq(c), |a, c| b(a == c)),
        ("and", |a, c| a & c, |a, c| a & c),
        ("or", |a, c| a | c, |a, c| a | c),
        ("xor", |a, c| a ^ c, |a, c| a ^ c),
        // shifts: KnownWord `value << shift`; reference takes (shift, value)
        ("shl", |v, s| v << s, |v, s| r_shl(s, v)),
        ("shr", |v, s| v >> s, |v, s| r_shr(s, v)),
        ("sar", |v, s| v.sar(s), |v, s| r_sar(s, v)),
    ]
}

fn check(name: &str, f: fn(KnownWord, KnownWord) -> KnownWord, r: fn(U256, U256) -> U256, x: U256, y: U256) {
    let got = catch_unwind(|| f(KnownWord::from_le(x), KnownWord::from_le(y)).value_le());
    let want = r(x, y);
    match got {
        Ok(g) if g == want => {}
        Ok(g) => witness("C09", &format!("kw.{name}"), format!("({x:#x},{y:#x})"), format!("{g:#x}"), format!("{want:#x}")),
        Err(_) => {
            witness("C09", &format!("kw.{name}"), format!("({x:#x},{y:#x})"), "PANIC".into(), format!("{want:#x}"));
            witness("C01", &format!("kw.{name}"), format!("({x:#x},{y:#x})"), "PANIC".into(), "no panic".into());
        }
    }
}

#[test]
fn c09_known_word_ops_boundary_and_random() {
    std::panic::set_hook(Box::new(|_| {}));
    let bw = boundary_words();
    let mut n = 0u64;
    for (name, f, r) in ops() {
        for &x in &bw {
            for &y in &bw {
                check(name, f, r, x, y);
                n += 1;
            }
        }
        let mut rng = Rng::seeded(9);
        for _ in 0..60 {
            let (x, y) = (rng.word(), rng.word());
            check(name, f, r, x, y);
            let small = U256::new(rng.below(300) as u128);
            check(name, f, r, x, small);
            n += 2;
        }
    }
    for &x in &bw {
        let g = KnownWord::from_le(x).is_zero().value_le();
        if g != b(x == U256::ZERO) { witness("C09", "kw.iszero", format!("{x:#x}"), format!("{g:#x}"), format!("{:#x}", b(x == U256::ZERO))); }
        let g = (!KnownWord::from_le(x)).value_le();
        if g != !x { witness("C09", "kw.not", format!("{x:#x}"), format!("{g:#x}"), format!("{:#x}", !x)); }
        let sg = KnownWord::from_le(x).value_le_signed();
        if sg != I256::from_ne_bytes(x.to_ne_bytes()) { witness("C09", "kw.value_le_signed", format!("{x:#x}"), format!("{sg}"), "reinterpretation".into()); }
    }
    println!("CASES c09_known_word_ops {n}");
}
