//! C09/C07 word semantics: every KnownWord operation against an independent reference of the EVM
//! instruction (written from the EVM definition), on the boundary set squared plus random words.
use std::panic::catch_unwind;

use ethnum::{I256, U256};
use storage_layout_extractor::vm::value::known::KnownWord;

use crate::{boundary_words, witness, Rng};

fn neg(x: U256) -> U256 { (!x).wrapping_add(U256::ONE) }
fn is_neg(x: U256) -> bool { x >> 255u32 == U256::ONE }
fn abs(x: U256) -> U256 { if is_neg(x) { neg(x) } else { x } }

fn r_sdiv(a: U256, b: U256) -> U256 {
    if b == U256::ZERO { return U256::ZERO; }
    let q = abs(a) / abs(b); // |MIN| = 2^255 as unsigned, |MIN|/1 = 2^255 = MIN again: wraps as the EVM does
    if is_neg(a) != is_neg(b) { neg(q) } else { q }
}
fn r_smod(a: U256, b: U256) -> U256 {
    if b == U256::ZERO { return U256::ZERO; }
    let r = abs(a) % abs(b);
    if is_neg(a) { neg(r) } else { r }
}
fn r_exp(a: U256, e: U256) -> U256 {
    // naive left-to-right binary exponentiation over all 256 exponent bits
    let mut r = U256::ONE;
    for i in (0..256u32).rev() {
        r = r.wrapping_mul(r);
        if (e >> i) & U256::ONE == U256::ONE { r = r.wrapping_mul(a); }
    }
    r
}
fn r_shl(s: U256, v: U256) -> U256 { if s >= U256::new(256) { U256::ZERO } else { v << s.as_u32() } }
fn r_shr(s: U256, v: U256) -> U256 { if s >= U256::new(256) { U256::ZERO } else { v >> s.as_u32() } }
fn r_sar(s: U256, v: U256) -> U256 {
    if s >= U256::new(256) { return if is_neg(v) { U256::MAX } else { U256::ZERO }; }
    let k = s.as_u32();
    let l = v >> k;
    if is_neg(v) && k > 0 { l | (U256::MAX << (256 - k)) } else { l }
}
fn b(x: bool) -> U256 { if x { U256::ONE } else { U256::ZERO } }
fn slt(a: U256, c: U256) -> bool { (a ^ (U256::ONE << 255u32)) < (c ^ (U256::ONE << 255u32)) }

type Op = (&'static str, fn(KnownWord, KnownWord) -> KnownWord, fn(U256, U256) -> U256);

fn ops() -> Vec<Op> {
    vec![
        ("add", |a, c| a + c, |a, c| a.wrapping_add(c)),
        ("mul", |a, c| a * c, |a, c| a.wrapping_mul(c)),
        ("sub", |a, c| a - c, |a, c| a.wrapping_sub(c)),
        ("div", |a, c| a / c, |a, c| if c == U256::ZERO { U256::ZERO } else { a / c }),
        ("mod", |a, c| a % c, |a, c| if c == U256::ZERO { U256::ZERO } else { a % c }),
        ("sdiv", |a, c| a.signed_div(c), r_sdiv),
        ("smod", |a, c| a.signed_rem(c), r_smod),
        ("exp", |a, c| a.exp(c), r_exp),
        ("lt", |a, c| a.lt(c), |a, c| b(a < c)),
        ("gt", |a, c| a.gt(c), |a, c| b(a > c)),
        ("slt", |a, c| a.signed_lt(c), |a, c| b(slt(a, c))),
        ("sgt", |a, c| a.signed_gt(c), |a, c| b(slt(c, a))),
        ("eq", |a, c| a.eq(c), |a, c| b(a == c)),
        ("and", |a, c| a & c, |a, c| a & c),
        ("or", |a, c| a | c, |a, c| a | c),
        ("xor", |a, c| a ^ c, |a, c| a ^ c),
        // shifts: KnownWord `value << shift`; reference takes (shift, value)
        ("shl", |v, s| v << s, |v, s| r_shl(s, v)),
        ("shr", |v, s| v >> s, |v, s| r_shr(s, v)),
        ("sar", |v, s| v.sar(s), |v, s| r_sar(s, v)),
    ]
}

fn check(name: &str, f: fn(KnownWord, KnownWord) -> KnownWord, r: fn(U256, U256) -> U256, x: U256, y: U256) {
    let got = catch_unwind(|| f(KnownWord::from_le(x), KnownWord::from_le(y)).value_le());
    let want = r(x, y);
    match got {
        Ok(g) if g == want => {}
        Ok(g) => witness("C09", &format!("kw.{name}"), format!("({x:#x},{y:#x})"), format!("{g:#x}"), format!("{want:#x}")),
        Err(_) => {
            witness("C09", &format!("kw.{name}"), format!("({x:#x},{y:#x})"), "PANIC".into(), format!("{want:#x}"));
            witness("C01", &format!("kw.{name}"), format!("({x:#x},{y:#x})"), "PANIC".into(), "no panic".into());
        }
    }
}

#[test]
fn c09_known_word_ops_boundary_and_random() {
    std::panic::set_hook(Box::new(|_| {}));
    let bw = boundary_words();
    let mut n = 0u64;
    for (name, f, r) in ops() {
        for &x in &bw {
            for &y in &bw {
                check(name, f, r, x, y);
                n += 1;
            }
        }
        let mut rng = Rng::seeded(9);
        for _ in 0..60 {
            let (x, y) = (rng.word(), rng.word());
            check(name, f, r, x, y);
            let small = U256::new(rng.below(300) as u128);
            check(name, f, r, x, small);
            n += 2;
        }
    }
    for &x in &bw {
        let g = KnownWord::from_le(x).is_zero().value_le();
        if g != b(x == U256::ZERO) { witness("C09", "kw.iszero", format!("{x:#x}"), format!("{g:#x}"), format!("{:#x}", b(x == U256::ZERO))); }
        let g = (!KnownWord::from_le(x)).value_le();
        if g != !x { witness("C09", "kw.not", format!("{x:#x}"), format!("{g:#x}"), format!("{:#x}", !x)); }
        let sg = KnownWord::from_le(x).value_le_signed();
        if sg != I256::from_ne_bytes(x.to_ne_bytes()) { witness("C09", "kw.value_le_signed", format!("{x:#x}"), format!("{sg}"), "reinterpretation".into()); }
    }
    println!("CASES c09_known_word_ops {n}");
}

/// nested all-constant expression trees (depth up to 4 over every foldable operator, leaves from the boundary words and
/// small numbers): `constant_fold` yields a constant, that constant is the value of the tree under the EVM's semantics
/// (evaluated by the reference evaluator of c07_diff), and folding twice changes nothing
#[test]
fn c09_nested_constant_trees_fold_to_their_value() {
    use std::sync::Arc;
    use storage_layout_extractor::vm::value::{RSV, RSVD};
    use crate::c07_diff::{ev, known};
    fn tree(rng: &mut Rng, depth: u32, leaves: &[U256]) -> Arc<RSV> {
        if depth == 0 || rng.below(5) == 0 { return known(leaves[rng.below(leaves.len() as u64) as usize]); }
        let mut sub = |rng: &mut Rng| tree(rng, depth - 1, leaves);
        let d = match rng.below(22) {
            0 => RSVD::Add { left: sub(rng), right: sub(rng) },
            1 => RSVD::Multiply { left: sub(rng), right: sub(rng) },
            2 => RSVD::Subtract { left: sub(rng), right: sub(rng) },
            3 => RSVD::Divide { dividend: sub(rng), divisor: sub(rng) },
            4 => RSVD::SignedDivide { dividend: sub(rng), divisor: sub(rng) },
            5 => RSVD::Modulo { dividend: sub(rng), divisor: sub(rng) },
            6 => RSVD::SignedModulo { dividend: sub(rng), divisor: sub(rng) },
            7 => RSVD::Exp { value: sub(rng), exponent: sub(rng) },
            8 => RSVD::LessThan { left: sub(rng), right: sub(rng) },
            9 => RSVD::GreaterThan { left: sub(rng), right: sub(rng) },
            10 => RSVD::SignedLessThan { left: sub(rng), right: sub(rng) },
            11 => RSVD::SignedGreaterThan { left: sub(rng), right: sub(rng) },
            12 => RSVD::Equals { left: sub(rng), right: sub(rng) },
            13 | 14 => RSVD::IsZero { number: sub(rng) },
            15 => RSVD::And { left: sub(rng), right: sub(rng) },
            16 => RSVD::Or { left: sub(rng), right: sub(rng) },
            17 => RSVD::Xor { left: sub(rng), right: sub(rng) },
            18 => RSVD::Not { value: sub(rng) },
            19 => RSVD::LeftShift { shift: sub(rng), value: sub(rng) },
            20 => RSVD::RightShift { shift: sub(rng), value: sub(rng) },
            _ => RSVD::ArithmeticRightShift { shift: sub(rng), value: sub(rng) },
        };
        RSV::new_synthetic(0, d)
    }
    let mut leaves = boundary_words();
    leaves.extend([0u128, 1, 2, 3, 7, 8, 31, 32, 255, 256, 257].map(U256::new));
    let mut rng = Rng::seeded(909);
    let n = 4000 * crate::scale();
    for _ in 0..n {
        let depth = 1 + rng.below(4) as u32;
        let t = tree(&mut rng, depth, &leaves);
        let want = ev(&t);
        let folded = t.constant_fold();
        let got = match folded.data() { RSVD::KnownData { value } => Some(value.value_le()), _ => None };
        if want.is_none() { continue; }
        if got != want {
            witness("C09", "fold.nested_constant_tree_folds_to_its_value", format!("{t}"), format!("{}", match got { Some(g) => format!("{g:#x}"), None => format!("not a constant: {folded}") }), format!("{:#x}", want.unwrap()));
        } else if folded.constant_fold().data() != folded.data() {
            witness("C09", "fold.idempotent", format!("{t}"), "folding the folded tree changes it".into(), "unchanged".into());
        }
    }
    // every even / odd depth of ISZERO over every leaf
    for &x in &leaves {
        let mut t = known(x);
        for depth in 1..=6u32 {
            t = RSV::new_synthetic(0, RSVD::IsZero { number: t });
            let want = if depth % 2 == 1 { b(x == U256::ZERO) } else { b(x != U256::ZERO) };
            let folded = t.constant_fold();
            if !matches!(folded.data(), RSVD::KnownData { value } if value.value_le() == want) {
                witness("C09", "fold.nested_constant_tree_folds_to_its_value", format!("ISZERO x {depth} of {x:#x}"), format!("{folded}"), format!("{want:#x}"));
            }
        }
    }
    println!("CASES c09_nested_trees {n}");
}

/// trees with OPAQUE leaves among the constants: folding may simplify constant parts but must not change what the tree
/// computes — under every valuation of the opaque leaves the folded tree evaluates to the same word as the original
#[test]
fn c09_folding_trees_with_opaque_leaves_preserves_their_value() {
    use std::sync::Arc;
    use storage_layout_extractor::vm::value::{Provenance, RSV, RSVD};
    use crate::c07_diff::{ev_env, known};
    fn tree(rng: &mut Rng, depth: u32, leaves: &[Arc<RSV>]) -> Arc<RSV> {
        if depth == 0 || rng.below(5) == 0 { return leaves[rng.below(leaves.len() as u64) as usize].clone(); }
        let mut sub = |rng: &mut Rng| tree(rng, depth - 1, leaves);
        let d = match rng.below(14) {
            0 | 1 => RSVD::Add { left: sub(rng), right: sub(rng) },
            2 | 3 | 4 => RSVD::Subtract { left: sub(rng), right: sub(rng) },
            5 => RSVD::Multiply { left: sub(rng), right: sub(rng) },
            6 => RSVD::Divide { dividend: sub(rng), divisor: sub(rng) },
            7 => RSVD::And { left: sub(rng), right: sub(rng) },
            8 => RSVD::Or { left: sub(rng), right: sub(rng) },
            9 => RSVD::Xor { left: sub(rng), right: sub(rng) },
            10 => RSVD::Not { value: sub(rng) },
            11 => RSVD::IsZero { number: sub(rng) },
            12 => RSVD::LeftShift { shift: sub(rng), value: sub(rng) },
            _ => RSVD::RightShift { shift: sub(rng), value: sub(rng) },
        };
        RSV::new_synthetic(0, d)
    }
    let opaque: Vec<Arc<RSV>> = (0..3).map(|i| RSV::new_value(i, Provenance::Synthetic)).collect();
    let mut leaves: Vec<Arc<RSV>> = opaque.clone();
    leaves.extend(opaque.clone());
    for x in [0u128, 1, 2, 3, 5, 7, 8, 255, 256] { leaves.push(known(U256::new(x))); }
    leaves.push(known(U256::MAX)); leaves.push(known(U256::ONE << 255u32));
    let bw = boundary_words();
    let mut rng = Rng::seeded(910);
    let n = 3000 * crate::scale();
    for _ in 0..n {
        let depth = 2 + rng.below(3) as u32;
        let t = tree(&mut rng, depth, &leaves);
        let folded = t.constant_fold();
        for round in 0..4 {
            let vals: Vec<U256> = (0..3).map(|_| if round == 0 { U256::ZERO } else { bw[rng.below(bw.len() as u64) as usize] }).collect();
            let env = |d: &RSVD| -> Option<U256> { opaque.iter().position(|o| o.data() == d).map(|i| vals[i]) };
            let (a, b) = (ev_env(&t, &env), ev_env(&folded, &env));
            if a.is_some() && a != b {
                witness("C09", "fold.preserves_the_value_of_partly_constant_trees", format!("{t}  with opaque leaves = {vals:x?}"), format!("folded to {folded}, which evaluates to {b:x?}"), format!("{:#x}", a.unwrap()));
                break;
            }
        }
    }
    println!("CASES c09_partly_constant_trees {n}");
}
