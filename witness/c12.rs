//! C12: StorageLayout stays ordered by (index, offset) under every history of `add`.
use ethnum::U256;
use storage_layout_extractor::{layout::StorageLayout, tc::abi::AbiType, utility::U256Wrapper};

use crate::{boundary_words, witness, Rng};

#[test]
fn c12_layout_add_keeps_order_and_entries() {
    let bw = boundary_words();
    let mut cases = 0u64;
    for round in 0..300u64 {
        let mut rng = Rng::seeded(1200 + round);
        let mut layout = StorageLayout::default();
        let mut model: Vec<(U256, usize)> = vec![];
        let n = 2 + rng.below(8);
        for _ in 0..n {
            let idx = if rng.below(2) == 0 { bw[rng.below(bw.len() as u64) as usize] } else { U256::new(rng.below(4) as u128) };
            let off = rng.below(256) as usize;
            layout.add(U256Wrapper(idx), off, AbiType::Any);
            model.push((idx, off));
            let got: Vec<(U256, usize)> = layout.slots().iter().map(|s| (s.index.0, s.offset)).collect();
            let mut want = model.clone();
            want.sort();
            if got != want {
                witness("C12", "layout.add.sorted", format!("adds={model:?}"), format!("{got:?}"), format!("{want:?}"));
                break;
            }
        }
        cases += 1;
    }
    println!("CASES c12_layout_add {cases}");
}

/// every layout entry produced by mask-and-shift code starts (and, with a known width, ends) inside its slot
#[test]
fn c12_mask_shift_entries_lie_inside_the_slot() {
    use crate::c08::{analyze_layout};
    let mut cases = 0;
    for shift in [0u16, 8, 96, 128, 160, 196, 200, 240, 248, 255, 256, 300] {
        for (mask_pos, mask_len) in [(0u32, 8u32), (8, 8), (56, 8), (64, 16), (128, 32), (160, 96), (248, 8), (243, 13), (246, 10), (251, 5), (100, 13), (0, 255)] {
            // PUSH1 0 SLOAD PUSH2 shift SHR PUSH32 mask AND PUSH1 1 SSTORE STOP
            let mask = ((U256::ONE << mask_len) - U256::ONE) << mask_pos;
            let mut code = vec![0x60, 0x00, 0x54, 0x61];
            code.extend(shift.to_be_bytes());
            code.push(0x1c);
            code.push(0x7f);
            code.extend(mask.to_be_bytes());
            code.push(0x16);
            // what the field is then used for: plain copy; re-positioned by * 2^k (packed write); as an address (BALANCE);
            // packed together with a second field
            let variant = (shift as usize / 8 + mask_pos as usize / 8) % 4;
            match variant {
                0 => code.extend([0x60, 0x01, 0x55, 0x00]),
                1 => {
                    // * 2^k (the compiler's way of positioning a field), alone or OR-ed with a second masked field
                    let k = [8u32, 64, 128, 200][(mask_len as usize / 8 + shift as usize / 8) % 4];
                    code.push(0x7f); code.extend((U256::ONE << k).to_be_bytes()); code.push(0x02);
                    if shift % 16 == 0 { code.extend([0x60, 0x20, 0x35, 0x67, 0xff, 0xff, 0xff, 0xff, 0xff, 0xff, 0xff, 0xff, 0x16, 0x17]); }
                    code.extend([0x60, 0x01, 0x55, 0x00]);
                }
                2 => code.extend([0x80, 0x31, 0x50, 0x60, 0x01, 0x55, 0x00]),
                _ => { code.extend([0x60, 0x40, 0x1b, 0x60, 0x20, 0x35, 0x67, 0xff, 0xff, 0xff, 0xff, 0xff, 0xff, 0xff, 0xff, 0x16, 0x17, 0x60, 0x01, 0x55, 0x00]); }
            }
            if let Some(slots) = analyze_layout(&code) {
                for (idx, off, width) in slots {
                    if off >= 256 { witness("C12", "arith.sub_word.region_inside_slot", format!("(sload(0) >> {shift}) & (mask at bit {mask_pos} len {mask_len}): {code:02x?}"), format!("entry slot {idx} offset {off}"), "offset < 256".into()); }
                    if let Some(w) = width { if off + w > 256 { witness("C12", "arith.sub_word.region_inside_slot", format!("(sload(0) >> {shift}) & (mask at bit {mask_pos} len {mask_len}): {code:02x?}"), format!("entry slot {idx} offset {off} width {w}"), "offset + width <= 256".into()); } }
                }
            }
            cases += 1;
        }
    }
    println!("CASES c12_mask_shift {cases}");
}

/// fields of every width and position, masked out of calldata or of the slot itself and stored plainly
#[test]
fn c12_masked_fields_of_odd_width_lie_inside_the_slot() {
    use crate::c08::analyze_layout;
    let mut cases = 0;
    for (pos, len) in [(243u32, 13u32), (246, 10), (251, 5), (255, 1), (240, 16), (100, 13), (3, 250), (1, 255), (17, 7), (249, 7), (232, 24), (236, 20)] {
        let mask = ((U256::ONE << len) - U256::ONE) << pos;
        for src in [vec![0x60u8, 0x00, 0x35], vec![0x60, 0x01, 0x54], vec![0x33]] {
            // PUSH32 mask ; <src> ; AND ; PUSH1 1 ; SSTORE
            let mut code = vec![0x7f];
            code.extend(mask.to_be_bytes());
            code.extend(&src);
            code.extend([0x16, 0x60, 0x01, 0x55, 0x00]);
            if let Some(slots) = analyze_layout(&code) {
                for (idx, off, width) in slots {
                    if off >= 256 || width.map_or(false, |w| off + w > 256) {
                        witness("C12", "layout.entry_inside_slot", format!("sstore(1, src & (mask at bit {pos} len {len})): {code:02x?}"), format!("entry slot {idx} offset {off} width {width:?}"), "starts and ends inside the 256-bit slot".into());
                    }
                }
            }
            cases += 1;
        }
    }
    // two adjacent fields filling the word: [0, split) | [split, 256), each masked out of calldata, OR-ed and stored
    for split in [243u32, 246, 251, 255, 240, 13, 100, 129, 7, 1] {
        let lo = (U256::ONE << split) - U256::ONE;
        let hi = !lo;
        let mut code = vec![0x7f];
        code.extend(lo.to_be_bytes());
        code.extend([0x60, 0x00, 0x35, 0x16, 0x7f]);
        code.extend(hi.to_be_bytes());
        code.extend([0x60, 0x20, 0x35, 0x16, 0x17, 0x60, 0x00, 0x55, 0x00]);
        if let Some(slots) = analyze_layout(&code) {
            for (idx, off, width) in slots {
                if off >= 256 || width.map_or(false, |w| off + w > 256) {
                    witness("C12", "layout.entry_inside_slot", format!("sstore(0, cd(0) & [0,{split}) | cd(32) & [{split},256)): {code:02x?}"), format!("entry slot {idx} offset {off} width {width:?}"), "starts and ends inside the 256-bit slot".into());
                }
            }
        }
        cases += 1;
    }
    println!("CASES c12_odd_fields {cases}");
}
