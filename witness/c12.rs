//! C12: StorageLayout stays ordered by (index, offset) under every history of `add`.
use ethnum::U256;
use storage_layout_extractor::{layout::StorageLayout, tc::abi::AbiType, utility::U256Wrapper};

use crate::{boundary_words, witness, Rng};

#[test]
fn c12_layout_add_keeps_order_and_entries() {
    let bw = boundary_words();
    let mut cases = 0u64;
    for round in 0..300u64 {
        let mut rng = Rng::seeded(1200 + round);
        let mut layout = StorageLayout::default();
        let mut model: Vec<(U256, usize)> = vec![];
        let n = 2 + rng.below(8);
        for _ in 0..n {
            let idx = if rng.below(2) == 0 { bw[rng.below(bw.len() as u64) as usize] } else { U256::new(rng.below(4) as u128) };
            let off = rng.below(256) as usize;
            layout.add(U256Wrapper(idx), off, AbiType::Any);
            model.push((idx, off));
            let got: Vec<(U256, usize)> = layout.slots().iter().map(|s| (s.index.0, s.offset)).collect();
            let mut want = model.clone();
            want.sort();
            if got != want {
                witness("C12", "layout.add.sorted", format!("adds={model:?}"), format!("{got:?}"), format!("{want:?}"));
                break;
            }
        }
        cases += 1;
    }
    println!("CASES c12_layout_add {cases}");
}

/// every layout entry produced by mask-and-shift code starts (and, with a known width, ends) inside its slot
#[test]
fn c12_mask_shift_entries_lie_inside_the_slot() {
    use crate::c08::{analyze_layout};
    let mut cases = 0;
    for shift in [0u16, 8, 96, 128, 160, 196, 200, 240, 248, 255, 256, 300] {
        for (mask_pos, mask_len) in [(0u32, 8u32), (8, 8), (56, 8), (64, 16), (128, 32), (160, 96), (248, 8), (243, 13), (246, 10), (251, 5), (100, 13), (0, 255)] {
            // PUSH1 0 SLOAD PUSH2 shift SHR PUSH32 mask AND PUSH1 1 SSTORE STOP
            let mask = ((U256::ONE << mask_len) - U256::ONE) << mask_pos;
            let mut code = vec![0x60, 0x00, 0x54, 0x61];
            code.extend(shift.to_be_bytes());
            code.push(0x1c);
            code.push(0x7f);
            code.extend(mask.to_be_bytes());
            code.push(0x16);
            // what the field is then used for: plain copy; re-positioned by * 2^k (packed write); as an address (BALANCE);
            // packed together with a second field
            let variant = (shift as usize / 8 + mask_pos as usize / 8) % 4;
            match variant {
                0 => code.extend([0x60, 0x01, 0x55, 0x00]),
                1 => {
                    // * 2^k (the compiler's way of positioning a field), alone or OR-ed with a second masked field
                    let k = [8u32, 64, 128, 200][(mask_len as usize / 8 + shift as usize / 8) % 4];
                    code.push(0x7f); code.extend((U256::ONE << k).to_be_bytes()); code.push(0x02);
                    if shift % 16 == 0 { code.extend([0x60, 0x20, 0x35, 0x67, 0xff, 0xff, 0xff, 0xff, 0xff, 0xff, 0xff, 0xff, 0x16, 0x17]); }
                    code.extend([0x60, 0x01, 0x55, 0x00]);
                }
                2 => code.extend([0x80, 0x31, 0x50, 0x60, 0x01, 0x55, 0x00]),
                _ => { code.extend([0x60, 0x40, 0x1b, 0x60, 0x20, 0x35, 0x67, 0xff, 0xff, 0xff, 0xff, 0xff, 0xff, 0xff, 0xff, 0x16, 0x17, 0x60, 0x01, 0x55, 0x00]); }
            }
            if let Some(slots) = analyze_layout(&code) {
                for (idx, off, width) in slots {
                    if off >= 256 { witness("C12", "arith.sub_word.region_inside_slot", format!("(sload(0) >> {shift}) & (mask at bit {mask_pos} len {mask_len}): {code:02x?}"), format!("entry slot {idx} offset {off}"), "offset < 256".into()); }
                    if let Some(w) = width { if off + w > 256 { witness("C12", "arith.sub_word.region_inside_slot", format!("(sload(0) >> {shift}) & (mask at bit {mask_pos} len {mask_len}): {code:02x?}"), format!("entry slot {idx} offset {off} width {w}"), "offset + width <= 256".into()); } }
                }
            }
            cases += 1;
        }
    }
    println!("CASES c12_mask_shift {cases}");
}

/// fields of every width and position, masked out of calldata or of the slot itself and stored plainly
#[test]
fn c12_masked_fields_of_odd_width_lie_inside_the_slot() {
    use crate::c08::analyze_layout;
    let mut cases = 0;
    for (pos, len) in [(243u32, 13u32), (246, 10), (251, 5), (255, 1), (240, 16), (100, 13), (3, 250), (1, 255), (17, 7), (249, 7), (232, 24), (236, 20)] {
        let mask = ((U256::ONE << len) - U256::ONE) << pos;
        for src in [vec![0x60u8, 0x00, 0x35], vec![0x60, 0x01, 0x54], vec![0x33]] {
            // PUSH32 mask ; <src> ; AND ; PUSH1 1 ; SSTORE
            let mut code = vec![0x7f];
            code.extend(mask.to_be_bytes());
            code.extend(&src);
            code.extend([0x16, 0x60, 0x01, 0x55, 0x00]);
            if let Some(slots) = analyze_layout(&code) {
                for (idx, off, width) in slots {
                    if off >= 256 || width.map_or(false, |w| off + w > 256) {
                        witness("C12", "layout.entry_inside_slot", format!("sstore(1, src & (mask at bit {pos} len {len})): {code:02x?}"), format!("entry slot {idx} offset {off} width {width:?}"), "starts and ends inside the 256-bit slot".into());
                    }
                }
            }
            cases += 1;
        }
    }
    // two adjacent fields filling the word: [0, split) | [split, 256), each masked out of calldata, OR-ed and stored
    for split in [243u32, 246, 251, 255, 240, 13, 100, 129, 7, 1] {
        let lo = (U256::ONE << split) - U256::ONE;
        let hi = !lo;
        let mut code = vec![0x7f];
        code.extend(lo.to_be_bytes());
        code.extend([0x60, 0x00, 0x35, 0x16, 0x7f]);
        code.extend(hi.to_be_bytes());
        code.extend([0x60, 0x20, 0x35, 0x16, 0x17, 0x60, 0x00, 0x55, 0x00]);
        if let Some(slots) = analyze_layout(&code) {
            for (idx, off, width) in slots {
                if off >= 256 || width.map_or(false, |w| off + w > 256) {
                    witness("C12", "layout.entry_inside_slot", format!("sstore(0, cd(0) & [0,{split}) | cd(32) & [{split},256)): {code:02x?}"), format!("entry slot {idx} offset {off} width {width:?}"), "starts and ends inside the 256-bit slot".into());
                }
            }
        }
        cases += 1;
    }
    println!("CASES c12_odd_fields {cases}");
}

fn push_word(code: &mut Vec<u8>, x: U256) {
    let b = x.to_be_bytes();
    let z = b.iter().take_while(|v| **v == 0).count();
    if z == 32 { code.push(0x5f); } else { code.push(0x5f + (32 - z) as u8); code.extend(&b[z..]); }
}

/// analyses the programs on 12 worker threads and reports every entry that does not lie inside its slot
fn check_in_slot(name: &str, progs: Vec<(String, Vec<u8>)>) { check_in_slot_as(name, "layout.entry_inside_slot", progs) }
/// the same under another obligation name (a family that exercises a recorded finding reports under the finding's name)
fn check_in_slot_as(name: &str, ob: &str, progs: Vec<(String, Vec<u8>)>) {
    use crate::c08::analyze_layout;
    std::panic::set_hook(Box::new(|_| {}));
    let n = progs.len();
    let workers = 12usize;
    let chunks: Vec<&[(String, Vec<u8>)]> = progs.chunks((n + workers - 1) / workers.max(1)).collect();
    let results: Vec<Vec<Option<Vec<(U256, usize, Option<usize>)>>>> = std::thread::scope(|s| {
        let hs: Vec<_> = chunks.iter().map(|ch| s.spawn(move || ch.iter().map(|(_, c)| analyze_layout(c)).collect::<Vec<_>>())).collect();
        hs.into_iter().map(|h| h.join().unwrap_or_default()).collect()
    });
    let mut seen = std::collections::BTreeMap::new();
    for (ch, rs) in chunks.iter().zip(results) {
        for ((what, code), r) in ch.iter().zip(rs) {
            let Some(slots) = r else { continue };
            for (idx, off, width) in slots {
                if off >= 256 || width.map_or(false, |w| off.checked_add(w).map_or(true, |e| e > 256)) {
                    *seen.entry(ob.to_string()).or_insert(0usize) += 1;
                    if seen[ob] <= 6 { witness("C12", ob, format!("{what}: {code:02x?}"), format!("entry slot {idx} offset {off} width {width:?}"), "starts and ends inside the 256-bit slot".into()); }
                }
            }
        }
    }
    for (o, k) in &seen { println!("NOTE {name} obligation={o} total_occurrences={k}"); }
    println!("CASES {name} {n}");
}

/// width- and offset-carrying uses whose constant operand is out of the word's range: multipliers that are not (or fold to
/// something that is not) a power of two below 2^256, SIGNEXTEND sizes, shifts and BYTE indices at and beyond 256
#[test]
fn c12_out_of_range_constant_operands_stay_inside_the_slot() {
    let mask64 = (U256::ONE << 64u32) - U256::ONE;
    let big = [U256::ZERO, U256::ONE, U256::from(2u8), U256::from(3u8), U256::from(31u8), U256::from(32u8), U256::from(33u8), U256::from(64u8), U256::from(255u16), U256::from(256u16), U256::from(257u16), U256::from(512u16),
        U256::ONE << 32u32, U256::ONE << 64u32, (U256::ONE << 64u32) + U256::ONE, U256::ONE << 255u32, U256::MAX];
    let mut progs: Vec<(String, Vec<u8>)> = vec![];
    // (cd(4) & mask64) | (cd(36) & mask64) * C      with C a literal or an expression that folds (2 ** e, 1 << s)
    let mut mults: Vec<(String, Vec<u8>)> = vec![];
    for c in big { let mut v = vec![]; push_word(&mut v, c); mults.push((format!("{c:#x}"), v)); }
    for e in [0u16, 1, 8, 64, 192, 255, 256, 257, 1000] {
        let mut v = vec![]; push_word(&mut v, U256::from(e)); v.extend([0x60, 0x02, 0x0a]); mults.push((format!("2 ** {e}"), v));
        let mut v = vec![0x60, 0x01]; push_word(&mut v, U256::from(e)); v.push(0x1b); mults.push((format!("1 << {e}"), v));
    }
    for (name, m) in &mults {
        let mut code = vec![];
        push_word(&mut code, mask64); code.extend([0x60, 0x04, 0x35, 0x16]);
        code.extend(m);
        push_word(&mut code, mask64); code.extend([0x60, 0x24, 0x35, 0x16]);
        code.push(0x02);
        code.extend([0x17, 0x60, 0x01, 0x55, 0x00]);
        progs.push((format!("sstore(1, cd(4)&m64 | (cd(36)&m64) * ({name}))"), code));
        // the product alone, and the product of a field of the slot itself
        let mut code = vec![];
        code.extend(m);
        push_word(&mut code, mask64); code.extend([0x60, 0x01, 0x54, 0x16]);
        code.extend([0x02, 0x60, 0x01, 0x55, 0x00]);
        progs.push((format!("sstore(1, (sload(1)&m64) * ({name}))"), code));
    }
    // 2^k * (a product / sum / masked sum that is not a plain sub-word): the shifted operand is not a sub-word
    for k in [2u32, 8, 64, 200] {
        for (iname, inner) in [("2 * cd(0)", vec![0x60u8, 0x00, 0x35, 0x60, 0x02, 0x02]), ("cd(0) * cd(32)", vec![0x60, 0x20, 0x35, 0x60, 0x00, 0x35, 0x02]), ("cd(0) + 1", vec![0x60, 0x01, 0x60, 0x00, 0x35, 0x01]),
                               ("(cd(0) & 0xff) * (cd(32) & 0xff)", vec![0x60, 0xff, 0x60, 0x20, 0x35, 0x16, 0x60, 0xff, 0x60, 0x00, 0x35, 0x16, 0x02]), ("(cd(0) & 0xff) * 3", vec![0x60, 0x03, 0x60, 0xff, 0x60, 0x00, 0x35, 0x16, 0x02])] {
            for left in [false, true] {
                let mut code = vec![];
                if left { push_word(&mut code, U256::ONE << k); code.extend(&inner); } else { code.extend(&inner); push_word(&mut code, U256::ONE << k); }
                code.extend([0x02, 0x60, 0x00, 0x55, 0x00]);
                progs.push((format!("sstore(0, 2^{k} * ({iname}))"), code.clone()));
                // ... OR-ed with a masked field
                let mut c2 = code[..code.len() - 4].to_vec();
                c2.extend([0x60, 0xff, 0x60, 0x40, 0x35, 0x16, 0x17, 0x60, 0x00, 0x55, 0x00]);
                progs.push((format!("sstore(0, 2^{k} * ({iname}) | cd(64) & 0xff)"), c2));
            }
        }
    }
    for c in big {
        for (name, op, swapped) in [("signextend", 0x0bu8, false), ("signextend", 0x0b, true), ("byte", 0x1a, false), ("shl", 0x1b, false), ("shr", 0x1c, false), ("sar", 0x1d, false), ("exp", 0x0a, true), ("div", 0x04, true), ("mod", 0x06, true)] {
            for src in [vec![0x60u8, 0x00, 0x54], vec![0x60, 0x00, 0x35]] {
                let mut code = vec![];
                if swapped { push_word(&mut code, c); code.extend(&src); } else { code.extend(&src); push_word(&mut code, c); }
                code.extend([op, 0x60, 0x01, 0x55, 0x00]);
                progs.push((format!("sstore(1, {name}({}{c:#x}{}))", if swapped { "src, " } else { "" }, if swapped { "" } else { ", src" }), code));
            }
        }
    }
    check_in_slot("c12_out_of_range_operands", progs);
}

/// nested mask-and-shift: ((src & m1) >> s1) & m2, ((src >> s1) & m1) << s2, masks of masks, stored alone or OR-ed with a second field
#[test]
fn c12_nested_masks_and_shifts_stay_inside_the_slot() {
    let m = |pos: u32, len: u32| -> U256 { if len >= 256 { U256::MAX << pos } else { ((U256::ONE << len) - U256::ONE) << pos } };
    let fields = [(0u32, 8u32), (0, 64), (8, 8), (64, 64), (96, 160), (128, 128), (192, 64), (240, 16), (248, 8), (3, 13), (250, 6)];
    let shifts = [0u16, 8, 64, 128, 192, 240, 248, 255];
    let mut progs: Vec<(String, Vec<u8>)> = vec![];
    for (i, &(p1, l1)) in fields.iter().enumerate() {
        for (j, &(p2, l2)) in fields.iter().enumerate() {
            for (k, &s) in shifts.iter().enumerate() {
                if (i + 2 * j + 3 * k) % 4 != 0 { continue; }
                for (sname, sop) in [("shr", 0x1cu8), ("shl", 0x1b)] {
                    for src in [vec![0x60u8, 0x01, 0x54], vec![0x60, 0x00, 0x35]] {
                        // ((src & m1) sop s) & m2
                        let mut code = vec![];
                        push_word(&mut code, m(p2, l2));
                        push_word(&mut code, m(p1, l1)); code.extend(&src); code.push(0x16);
                        push_word(&mut code, U256::from(s)); code.push(sop);
                        code.push(0x16);
                        let mut alone = code.clone(); alone.extend([0x60, 0x01, 0x55, 0x00]);
                        progs.push((format!("sstore(1, ((src & [{p1},+{l1})) {sname} {s}) & [{p2},+{l2}))"), alone));
                        // ... | (cd(64) & low byte)
                        code.extend([0x60, 0xff, 0x60, 0x40, 0x35, 0x16, 0x17, 0x60, 0x01, 0x55, 0x00]);
                        progs.push((format!("sstore(1, ((src & [{p1},+{l1})) {sname} {s}) & [{p2},+{l2}) | cd(64)&0xff)"), code));
                    }
                }
            }
        }
    }
    check_in_slot("c12_nested_masks", progs);
}

/// sub-words that nest THROUGH STORAGE: a field cut out of slot A is stored in slot B, a field cut out of slot B is stored
/// in slot C, ... — whatever the types of B, C say about A, every entry still lies inside its slot
#[test]
fn c12_fields_of_fields_through_storage_stay_inside_the_slot() {
    let m = |pos: u32, len: u32| -> U256 { if len >= 256 { U256::MAX << pos } else { ((U256::ONE << len) - U256::ONE) << pos } };
    let cuts = [(128u32, 128u32), (192, 64), (64, 64), (0, 128), (248, 8), (100, 32), (8, 160)];
    let mut progs: Vec<(String, Vec<u8>)> = vec![];
    for &(p1, l1) in &cuts { for &(p2, l2) in &cuts { for in_place in [false, true] {
        // a = field(sload(1)); sstore(2, a); b = field(sload(2)); sstore(3, b); [c = field(sload(3)); sstore(4, c)]
        let field = |code: &mut Vec<u8>, slot: u8, pos: u32, len: u32, in_place: bool| {
            if in_place { push_word(code, m(pos, len)); code.extend([0x60, slot, 0x54, 0x16]); }
            else { push_word(code, m(0, len)); code.extend([0x60, slot, 0x54]); push_word(code, U256::from(pos)); code.extend([0x1c, 0x16]); }
        };
        let mut code = vec![];
        field(&mut code, 1, p1, l1, false); code.extend([0x60, 0x02, 0x55]);
        field(&mut code, 2, p2, l2, in_place); code.extend([0x60, 0x03, 0x55]);
        let two = { let mut c = code.clone(); c.push(0x00); c };
        progs.push((format!("s2 = s1[{p1},+{l1}); s3 = s2[{p2},+{l2}) ({})", if in_place { "mask in place" } else { "shifted down" }), two));
        field(&mut code, 3, p1, l2, in_place); code.extend([0x60, 0x04, 0x55, 0x00]);
        progs.push((format!("s2 = s1[{p1},+{l1}); s3 = s2[{p2},+{l2}); s4 = s3[{p1},+{l2})"), code));
    } } }
    // D28 (recorded): the nesting check of the sub-word lift is syntactic and cannot see a field that reaches its parent through SSTORE / SLOAD
    check_in_slot_as("c12_fields_through_storage", "layout.entry_inside_slot.d28_field_of_field_through_storage", progs);
}

/// three and four levels of mask-and-shift nested in one expression: (((src >> s1) & m1) >> s2) & m2) >> s3) & m3 ...; each
/// level fits the one it is taken from, or not; the offsets add up over ALL the levels
#[test]
fn c12_deeply_nested_masks_stay_inside_the_slot() {
    let low = |len: u32| -> U256 { if len >= 256 { U256::MAX } else { (U256::ONE << len) - U256::ONE } };
    let levels: [(u16, u32); 8] = [(128, 128), (64, 64), (100, 32), (0, 200), (8, 8), (192, 64), (32, 160), (250, 6)];
    let mut progs: Vec<(String, Vec<u8>)> = vec![];
    for a in levels { for b in levels { for c in levels {
        for depth4 in [false, true] {
            if depth4 && (a.0 + b.0 + c.0) % 3 != 0 { continue; }
            for src in [vec![0x60u8, 0x01, 0x54], vec![0x60, 0x00, 0x35]] {
                let mut chain = vec![a, b, c];
                if depth4 { chain.push((16, 16)); }
                // innermost first
                let mut code = src.clone();
                let mut desc = String::from("src");
                for (s, l) in &chain {
                    push_word(&mut code, U256::from(*s)); code.push(0x1c);
                    push_word(&mut code, low(*l)); code.push(0x16);
                    desc = format!("(({desc} >> {s}) & 2^{l}-1)");
                }
                code.extend([0x60, 0x02, 0x55, 0x00]);
                progs.push((format!("sstore(2, {desc})"), code));
            }
        }
    } } }
    check_in_slot("c12_deeply_nested_masks", progs);
}

/// a field cut out of call data (or of another slot) is stored, read back from storage in the same run and stored again
/// (elsewhere, or into the slot it came from); and words loaded from memory after bulk copies of every size are stored —
/// whatever the types say about each other, every entry lies inside its slot
#[test]
fn c12_stored_fields_read_back_and_copied_words_stay_inside_the_slot() {
    let low = |len: u32| -> U256 { if len >= 256 { U256::MAX } else { (U256::ONE << len) - U256::ONE } };
    let mut progs: Vec<(String, Vec<u8>)> = vec![];
    // the same with a field of another SLOT as the source is the recorded finding D28 (a field of slot 7 reaches slot 1 and is read back)
    let mut d28: Vec<(String, Vec<u8>)> = vec![];
    for (shift, len) in [(128u16, 128u32), (192, 64), (64, 64), (0, 128), (8, 160), (100, 32), (248, 8)] {
        for src in [vec![0x60u8, 0x04, 0x35], vec![0x60, 0x07, 0x54], vec![0x33]] {
            let from_slot = src.last() == Some(&0x54);
            // v = (src >> shift) & low(len); sstore(1, v); sstore(2, sload(1)); [sstore(1, sload(2))]
            let mut c = vec![];
            push_word(&mut c, low(len)); c.extend(&src); push_word(&mut c, U256::from(shift)); c.extend([0x1c, 0x16]);
            c.extend([0x60, 0x01, 0x55, 0x60, 0x01, 0x54, 0x60, 0x02, 0x55]);
            let mut two = c.clone(); two.push(0x00);
            let list = if from_slot { &mut d28 } else { &mut progs };
            list.push((format!("v = (src >> {shift}) & 2^{len}-1; sstore(1, v); sstore(2, sload(1))"), two));
            c.extend([0x60, 0x02, 0x54, 0x60, 0x01, 0x55, 0x00]);
            list.push((format!("v = (src >> {shift}) & 2^{len}-1; sstore(1, v); sstore(2, sload(1)); sstore(1, sload(2))"), c));
        }
    }
    // bulk copies of constant sizes up to far above the single-operation limit, then the first / a middle word is stored
    for (name, op, nargs) in [("calldatacopy", 0x37u8, 3usize), ("codecopy", 0x39, 3), ("returndatacopy", 0x3e, 3), ("extcodecopy", 0x3c, 4)] {
        for size in [1u64, 31, 32, 33, 64, 0x200, 1000, 4096, 1 << 16, 1 << 32] {
            for word in [0u8, 1] {
                let mut c = vec![];
                push_word(&mut c, U256::from(size)); c.extend([0x60, 0x04, 0x60, 0x80]);
                if nargs == 4 { c.push(0x33); }
                c.push(op);
                c.extend([0x60, 0x80 + 32 * word, 0x51, 0x60, 0x00, 0x55, 0x00]);
                progs.push((format!("{name}(0x80, 4, {size}); sstore(0, mload({:#x}))", 0x80 + 32 * word as u32), c));
            }
        }
    }
    check_in_slot("c12_read_back_and_copies", progs);
    check_in_slot_as("c12_read_back_of_a_slot_field", "layout.entry_inside_slot.d28_field_of_field_through_storage", d28);
}

/// packed stores WITH HOLES between their fields, whose fields are then split by narrower read masks, while one of the
/// stored values also sits at another offset of another slot: the re-partitioned spans of every slot stay inside the slot
#[test]
fn c12_packed_stores_with_holes_split_by_narrower_reads_stay_inside_the_slot() {
    let low = |len: u32| -> U256 { if len >= 256 { U256::MAX } else { (U256::ONE << len) - U256::ONE } };
    let mut progs: Vec<(String, Vec<u8>)> = vec![];
    // a = cd(32) & low(la) ; b = cd(0) & low(lb) ; sstore(2, a << sa2) ; sstore(1, b | a << sa1) ; sload(1) & (low(lr) << pr) dropped into memory
    for (lb, la, sa1) in [(64u32, 128u32, 128u32), (8, 64, 192), (32, 32, 64), (64, 64, 128), (16, 160, 96)] {
        for sa2 in [0u32, 64, 128] {
            if sa2 + la > 256 { continue; }
            for (pr, lr) in [(sa1, la / 2), (sa1 + la / 2, la / 2), (0, lb / 2), (sa1, 8), (sa1 + 8, la - 8)] {
                if pr + lr > 256 || lr == 0 { continue; }
                for mul in [false, true] {
                    let mut c = vec![];
                    let place = |c: &mut Vec<u8>, s: u32| { if s == 0 { return; } if mul { push_word(c, U256::ONE << s); c.push(0x02); } else { push_word(c, U256::from(s)); c.push(0x1b); } };
                    // a << sa2 -> slot 2
                    push_word(&mut c, low(la)); c.extend([0x60, 0x20, 0x35, 0x16]); place(&mut c, sa2); c.extend([0x60, 0x02, 0x55]);
                    // b | a << sa1 -> slot 1
                    push_word(&mut c, low(lb)); c.extend([0x60, 0x00, 0x35, 0x16]);
                    push_word(&mut c, low(la)); c.extend([0x60, 0x20, 0x35, 0x16]); place(&mut c, sa1);
                    c.extend([0x17, 0x60, 0x01, 0x55]);
                    // narrower read of slot 1
                    push_word(&mut c, low(lr) << pr); c.extend([0x60, 0x01, 0x54, 0x16, 0x60, 0x00, 0x52, 0x00]);
                    progs.push((format!("slot2 = a[{la}] at {sa2}; slot1 = b[{lb}] at 0 | a at {sa1}; read slot1 bits [{pr},+{lr}) ({})", if mul { "MUL" } else { "SHL" }), c));
                    if sa2 == 0 {
                        // the SAME positioned value (one node, DUP1) goes to slot 2 and into slot 1
                        let mut c = vec![];
                        push_word(&mut c, low(la)); c.extend([0x60, 0x20, 0x35, 0x16]); place(&mut c, sa1); c.extend([0x80, 0x60, 0x02, 0x55]);
                        push_word(&mut c, low(lb)); c.extend([0x60, 0x00, 0x35, 0x16, 0x17, 0x60, 0x01, 0x55]);
                        push_word(&mut c, low(lr) << pr); c.extend([0x60, 0x01, 0x54, 0x16, 0x60, 0x00, 0x52, 0x00]);
                        progs.push((format!("v = a[{la}] at {sa1}; slot2 = v; slot1 = b[{lb}] | v; read slot1 bits [{pr},+{lr}) ({})", if mul { "MUL" } else { "SHL" }), c));
                    }
                }
            }
        }
    }
    check_in_slot("c12_packed_with_holes", progs);
}
