//! C12: StorageLayout stays ordered by (index, offset) under every history of `add`.
use ethnum::U256;
use storage_layout_extractor::{layout::StorageLayout, tc::abi::AbiType, utility::U256Wrapper};

use crate::{boundary_words, witness, Rng};

#[test]
fn c12_layout_add_keeps_order_and_entries() {
    let bw = boundary_words();
    let mut cases = 0u64;
    for round in 0..300u64 {
        let mut rng = Rng::seeded(1200 + round);
        let mut layout = StorageLayout::default();
        let mut model: Vec<(U256, usize)> = vec![];
        let n = 2 + rng.below(8);
        for _ in 0..n {
            let idx = if rng.below(2) == 0 { bw[rng.below(bw.len() as u64) as usize] } else { U256::new(rng.below(4) as u128) };
            let off = rng.below(256) as usize;
            layout.add(U256Wrapper(idx), off, AbiType::Any);
            model.push((idx, off));
            let got: Vec<(U256, usize)> = layout.slots().iter().map(|s| (s.index.0, s.offset)).collect();
            let mut want = model.clone();
            want.sort();
            if got != want {
                witness("C12", "layout.add.sorted", format!("adds={model:?}"), format!("{got:?}"), format!("{want:?}"));
                break;
            }
        }
        cases += 1;
    }
    println!("CASES c12_layout_add {cases}");
}
