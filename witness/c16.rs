//! C16: `merge` is independent of order and grouping, over the finite evidence domain the property names.
//! All ordered pairs (symmetry) and all ordered triples (associativity) of the REAL `unification::merge`.
//!
//! Outcome of a grouping = (resulting expression, every equality / judgement emitted by BOTH merges of that
//! grouping), normalised as DESIGN.md §6 "C16" says:
//!   * a conflict is just "conflict" (payload and wording forgotten) and, when the combined result is a
//!     conflict, the equalities emitted on the way are NOT compared;
//!   * otherwise type variables are replaced by the representative of their class under the accumulated
//!     equalities, and the equalities are compared as the partition they generate.
//! The three recorded non-associativity classes D12 (DESIGN.md §5) are reported under their own names
//! `merge.associative.d12_*`; anything else is `merge.associative`.
use std::{collections::BTreeMap, panic::{catch_unwind, AssertUnwindSafe}};

use ethnum::U256;
use storage_layout_extractor::{
    data::vector_map::ToUniqueIndex,
    tc::{
        expression::{WordUse, TE},
        state::{type_variable::TypeVariable, TypeCheckerState},
        unification::{merge, Merge},
    },
    vm::value::{Provenance, RSV},
};

use crate::witness;

/// union-find over the (tiny) set of type-variable ids
#[derive(Clone, Default)]
struct Classes(BTreeMap<usize, usize>);
impl Classes {
    fn find(&self, x: usize) -> usize {
        let mut x = x;
        while let Some(&p) = self.0.get(&x) { if p == x { break; } x = p; }
        x
    }
    fn union(&mut self, a: usize, b: usize) {
        let (ra, rb) = (self.find(a), self.find(b));
        if ra != rb { self.0.insert(ra.max(rb), ra.min(rb)); }
    }
    /// the partition as sorted non-trivial pairs (member, representative)
    fn pairs(&self, universe: &[usize]) -> Vec<(usize, usize)> {
        universe.iter().map(|&v| (v, self.find(v))).filter(|(v, r)| v != r).collect()
    }
}

#[derive(Clone, PartialEq, Eq)]
enum Outcome {
    Conflict,
    /// rendered expression (variables replaced by class representatives), partition, #judgements, #fresh variables
    Type(String, Vec<(usize, usize)>, usize, usize),
}

impl std::fmt::Debug for Outcome {
    fn fmt(&self, f: &mut std::fmt::Formatter<'_>) -> std::fmt::Result {
        match self {
            Outcome::Conflict => write!(f, "conflict"),
            Outcome::Type(e, eqs, nj, nv) => {
                write!(f, "{e} equating {{{}}}", eqs.iter().map(|(a, b)| format!("v{a}=v{b}")).collect::<Vec<_>>().join(","))?;
                if *nj + *nv > 0 { write!(f, " +{nj} judgements +{nv} fresh variables")?; }
                Ok(())
            }
        }
    }
}

fn id(v: TypeVariable) -> usize { v.index() }

fn render(e: &TE, c: &Classes) -> String {
    let r = |v: &TypeVariable| format!("v{}", c.find(id(*v)));
    match e {
        TE::Any => "Any".into(),
        TE::Bytes => "DynBytes".into(),
        TE::Word { width, usage } => format!("Word<{usage:?},{width:?}>"),
        TE::Equal { id } => format!("Eq<{}>", r(id)),
        TE::Mapping { key, value } => format!("Map<{},{}>", r(key), r(value)),
        TE::DynamicArray { element } => format!("Dyn<{}>", r(element)),
        TE::FixedArray { element, length } => format!("Fix<{},{length}>", r(element)),
        TE::Packed { types, is_struct } => format!("Packed<{:?},{is_struct}>", types.iter().map(|s| (r(&s.typ), s.offset, s.size)).collect::<Vec<_>>()),
        TE::Conflict { .. } => "Conflict".into(),
    }
}

/// outcome of one grouping: the final merge plus everything the inner merge emitted
fn outcome(fin: &Merge, inner: Option<&Merge>, universe: &[usize]) -> Outcome {
    if matches!(fin.expression, TE::Conflict { .. }) { return Outcome::Conflict; }
    let mut c = Classes::default();
    let mut nj = fin.judgements.len();
    let mut nv = fin.ty_vars.len();
    for m in std::iter::once(fin).chain(inner) {
        for e in &m.equalities { c.union(id(e.left), id(e.right)); }
    }
    if let Some(i) = inner { nj += i.judgements.len(); nv += i.ty_vars.len(); }
    Outcome::Type(render(&fin.expression, &c), c.pairs(universe), nj, nv)
}

fn show(e: &TE) -> String { render(e, &Classes::default()) }

fn domain(v0: TypeVariable, v1: TypeVariable) -> Vec<TE> {
    let mut dom: Vec<TE> = vec![TE::Any, TE::Bytes];
    for u in [WordUse::Bytes, WordUse::Numeric, WordUse::UnsignedNumeric, WordUse::SignedNumeric] {
        for w in [None, Some(8), Some(32), Some(160), Some(192), Some(256)] { dom.push(TE::word(w, u)); }
    }
    dom.extend([TE::bool(), TE::address(), TE::selector(), TE::function()]);
    for (a, b) in [(v0, v1), (v1, v0), (v0, v0), (v1, v1)] { dom.push(TE::mapping(a, b)); }
    for a in [v0, v1] { dom.push(TE::dyn_array(a)); }
    for (a, n) in [(v0, 2u8), (v1, 2), (v0, 3)] { dom.push(TE::FixedArray { element: a, length: U256::from(n) }); }
    // lengths that agree modulo 2^64 but differ as 256-bit numbers
    dom.push(TE::FixedArray { element: v1, length: (U256::ONE << 64u32) + U256::from(2u8) });
    dom.push(TE::FixedArray { element: v0, length: U256::ONE << 255u32 });
    dom.push(TE::conflict(TE::Bytes, TE::bool(), "seed"));
    dom
}

fn nonsigned_word(e: &TE) -> bool { matches!(e, TE::Word { usage, .. } if !usage.is_definitely_signed()) }

/// two words whose own combination is contradictory (different known widths or incompatible usages) — decided
/// from the inputs alone (not by calling `merge`), so that a broken `merge` cannot reclassify its own failures
fn words_clash(a: &TE, b: &TE) -> bool {
    let (TE::Word { width: wa, usage: ua }, TE::Word { width: wb, usage: ub }) = (a, b) else { return false };
    let widths = matches!((wa, wb), (Some(x), Some(y)) if x != y);
    let rank = |u: &WordUse| match u { WordUse::Bytes => 0, WordUse::Numeric => 1, WordUse::UnsignedNumeric => 2, WordUse::Address => 3, _ => 9 };
    // the usage lattice: Bytes < Numeric < Unsigned < Address is a chain; Signed only above Numeric/Bytes;
    // Bool/Selector/Function only above Bytes
    let usages_ok = ua == ub || (rank(ua) < 9 && rank(ub) < 9)
        || matches!((ua, ub), (WordUse::Bytes, _) | (_, WordUse::Bytes))
        || matches!((ua, ub), (WordUse::Numeric, WordUse::SignedNumeric) | (WordUse::SignedNumeric, WordUse::Numeric));
    widths || !usages_ok
}

/// the recorded D12 class of a triple, if it is in one (order-insensitive)
fn d12_class(t: [&TE; 3]) -> Option<&'static str> {
    let bytes: Vec<&&TE> = t.iter().filter(|e| matches!(e, TE::Bytes)).collect();
    let dyns: Vec<&&TE> = t.iter().filter(|e| matches!(e, TE::DynamicArray { .. })).collect();
    let words: Vec<&&TE> = t.iter().filter(|e| nonsigned_word(e)).collect();
    if words.len() == 2 && words_clash(words[0], words[1]) {
        if bytes.len() == 1 { return Some("merge.associative.d12_bytes_word_word"); }
        if dyns.len() == 1 { return Some("merge.associative.d12_dyn_word_word"); }
    }
    if bytes.len() == 1 && dyns.len() == 2 && dyns[0] != dyns[1] { return Some("merge.associative.d12_bytes_dyn_dyn"); }
    None
}

#[test]
fn c16_merge_pairs_symmetric_triples_associative() {
    std::panic::set_hook(Box::new(|_| {}));
    let mut st = TypeCheckerState::empty();
    let v0 = st.register(RSV::new_value(0, Provenance::Synthetic));
    let v1 = st.register(RSV::new_value(1, Provenance::Synthetic));
    let parent = st.register(RSV::new_value(2, Provenance::Synthetic));
    let universe = [id(v0), id(v1), id(parent)];
    let dom = domain(v0, v1);
    let n = dom.len();
    let mut cases = 0u64;

    // every pairwise merge once (also the panic check); `None` = the merge panicked
    let mut pair: Vec<Vec<Option<Merge>>> = Vec::with_capacity(n);
    for a in &dom {
        let mut row = Vec::with_capacity(n);
        for b in &dom {
            let r = catch_unwind(AssertUnwindSafe(|| merge(a.clone(), b.clone(), parent, &mut st))).ok();
            if r.is_none() {
                witness("C16", "merge.symmetric", format!("merge({}, {})", show(a), show(b)), "PANIC".into(), "a result".into());
            }
            row.push(r);
        }
        pair.push(row);
    }

    // symmetry
    let mut sym_reported = 0;
    for i in 0..n {
        for j in 0..n {
            cases += 1;
            let (Some(ab), Some(ba)) = (&pair[i][j], &pair[j][i]) else { continue };
            let (oab, oba) = (outcome(ab, None, &universe), outcome(ba, None, &universe));
            if oab != oba && i < j {
                sym_reported += 1;
                if sym_reported <= 6 {
                    witness("C16", "merge.symmetric", format!("a={} b={}", show(&dom[i]), show(&dom[j])), format!("merge(a,b)={oab:?} merge(b,a)={oba:?}"), "the same outcome up to conflict wording and representatives".into());
                }
            }
        }
    }
    if sym_reported > 6 { println!("NOTE c16: {sym_reported} asymmetric pairs in total (first 6 reported)"); }

    // associativity
    let mut by_class: BTreeMap<&'static str, (u64, String, String, String)> = BTreeMap::new();
    for i in 0..n {
        for j in 0..n {
            for k in 0..n {
                cases += 1;
                let (a, b, c) = (&dom[i], &dom[j], &dom[k]);
                let (Some(ab), Some(bc)) = (&pair[i][j], &pair[j][k]) else { continue };
                let l = catch_unwind(AssertUnwindSafe(|| merge(ab.expression.clone(), c.clone(), parent, &mut st)));
                let r = catch_unwind(AssertUnwindSafe(|| merge(a.clone(), bc.expression.clone(), parent, &mut st)));
                let (ol, or) = match (&l, &r) {
                    (Ok(l), Ok(r)) => (format!("{:?}", outcome(l, Some(ab), &universe)), format!("{:?}", outcome(r, Some(bc), &universe))),
                    _ => (if l.is_ok() { "ok".into() } else { "PANIC".to_string() }, if r.is_ok() { "ok".into() } else { "PANIC in a+(b+c)".to_string() }),
                };
                if ol != or {
                    let class = d12_class([a, b, c]).unwrap_or("merge.associative");
                    let e = by_class.entry(class).or_insert((0, format!("a={} b={} c={}", show(a), show(b), show(c)), ol.clone(), or.clone()));
                    e.0 += 1;
                    // unknown classes: print more than the first example
                    if class == "merge.associative" && e.0 > 1 && e.0 <= 6 {
                        witness("C16", class, format!("a={} b={} c={}", show(a), show(b), show(c)), format!("(a+b)+c={ol}"), format!("a+(b+c)={or}"));
                    }
                }
            }
        }
    }
    for (class, (count, input, l, r)) in &by_class {
        witness("C16", class, format!("{input} ({count} triples of the domain in this class)"), format!("(a+b)+c={l}"), format!("a+(b+c)={r}"));
    }
    println!("CASES c16_merge_laws {cases}");
}

/// packed evidence is outside C16's finite domain, but it is combined by the same `merge` and the same fold: the
/// pairwise outcome must not depend on which side is the left one (struct flag, span list)
#[test]
fn c16_packed_pairs_symmetric() {
    use storage_layout_extractor::tc::expression::Span;
    std::panic::set_hook(Box::new(|_| {}));
    let mut st = TypeCheckerState::empty();
    let vs: Vec<TypeVariable> = (0..4).map(|i| st.register(RSV::new_value(i, Provenance::Synthetic))).collect();
    let parent = st.register(RSV::new_value(9, Provenance::Synthetic));
    let span_lists: Vec<Vec<Span>> = vec![
        vec![Span::new(vs[0], 0, 256)],
        vec![Span::new(vs[0], 0, 128), Span::new(vs[1], 128, 128)],
        vec![Span::new(vs[0], 0, 8), Span::new(vs[1], 8, 160)],
        vec![Span::new(vs[2], 0, 64), Span::new(vs[1], 64, 64), Span::new(vs[3], 128, 128)],
    ];
    let mut cases = 0;
    for s1 in &span_lists {
        for s2 in &span_lists {
            for (a, b) in [(TE::packed_of(s1.clone()), TE::struct_of(s2.clone())), (TE::struct_of(s1.clone()), TE::struct_of(s2.clone())), (TE::packed_of(s1.clone()), TE::packed_of(s2.clone()))] {
                let ab = catch_unwind(AssertUnwindSafe(|| merge(a.clone(), b.clone(), parent, &mut st)));
                let ba = catch_unwind(AssertUnwindSafe(|| merge(b.clone(), a.clone(), parent, &mut st)));
                let (Ok(ab), Ok(ba)) = (ab, ba) else { witness("C16", "merge.symmetric", format!("merge({}, {})", show(&a), show(&b)), "PANIC".into(), "a result".into()); continue };
                // compare what does not depend on fresh-variable naming: conflict or not, the struct flag, the span geometry
                let shape = |e: &TE| match e {
                    TE::Conflict { .. } => "conflict".to_string(),
                    TE::Packed { types, is_struct } => format!("packed struct={is_struct} spans={:?}", types.iter().map(|s| (s.offset, s.size)).collect::<Vec<_>>()),
                    other => show(other),
                };
                if shape(&ab.expression) != shape(&ba.expression) {
                    witness("C16", "merge.symmetric", format!("a={} b={}", show(&a), show(&b)), format!("merge(a,b)={} merge(b,a)={}", shape(&ab.expression), shape(&ba.expression)), "the same outcome".into());
                }
                cases += 1;
            }
        }
    }
    println!("CASES c16_packed_pairs {cases}");
}

/// triples with packed operands whose spans are listed in any order (the string-encoding geometry {[0,1) [1,8) [8,256)} split
/// over one or two operands) against `bytes` / a dynamic array / more packed: every grouping and order gives the same outcome class
#[test]
fn c16_packed_triples_group_and_order_independent() {
    use storage_layout_extractor::tc::expression::Span;
    std::panic::set_hook(Box::new(|_| {}));
    let mut st = TypeCheckerState::empty();
    let vs: Vec<TypeVariable> = (0..6).map(|i| st.register(RSV::new_value(i, Provenance::Synthetic))).collect();
    let parent = st.register(RSV::new_value(9, Provenance::Synthetic));
    let geo = [(0usize, 1usize), (1, 7), (8, 248)];
    let sp = |idx: &[usize]| -> TE { TE::packed_of(idx.iter().map(|&i| Span::new(vs[i], geo[i].0, geo[i].1)).collect::<Vec<Span>>()) };
    let operands: Vec<TE> = vec![
        sp(&[0, 1, 2]), sp(&[2, 1, 0]), sp(&[1, 2, 0]), sp(&[2, 0]), sp(&[0, 2]), sp(&[1]), sp(&[0]), sp(&[2]), sp(&[1, 0]), sp(&[2, 1]),
        TE::Bytes, TE::DynamicArray { element: vs[3] },
    ];
    let shape = |e: &TE| match e {
        TE::Conflict { .. } => "conflict".to_string(),
        TE::Packed { types, is_struct } => { let mut g: Vec<(usize, usize)> = types.iter().map(|s| (s.offset, s.size)).collect(); g.sort(); format!("packed struct={is_struct} spans={g:?}") }
        TE::DynamicArray { .. } => "dynamic array".to_string(),
        other => show(other),
    };
    let mut m2 = |a: &TE, b: &TE| -> Option<TE> { catch_unwind(AssertUnwindSafe(|| merge(a.clone(), b.clone(), parent, &mut st))).ok().map(|m| m.expression) };
    let mut cases = 0;
    let mut seen = std::collections::BTreeSet::new();
    for a in &operands { for b in &operands { for c in &operands {
        // at least one packed and one of bytes / dynamic array, or three packed
        let packed = [a, b, c].iter().filter(|e| matches!(e, TE::Packed { .. })).count();
        if packed == 0 { continue; }
        cases += 1;
        let mut outs = vec![];
        for (x, y, z, name) in [(a, b, c, "(a.b).c"), (b, c, a, "a.(b.c)"), (a, c, b, "(a.c).b"), (b, a, c, "(b.a).c"), (c, b, a, "(c.b).a")] {
            let r = m2(x, y).and_then(|xy| m2(&xy, z));
            outs.push((name, r.as_ref().map(|e| shape(e)).unwrap_or_else(|| "PANIC".into())));
        }
        if outs.iter().any(|o| o.1 != outs[0].1) {
            let key = format!("{:?}", outs.iter().map(|o| o.1.clone()).collect::<Vec<_>>());
            if seen.insert(key) && seen.len() <= 6 {
                witness("C16", "merge.packed_triples.group_and_order_independent", format!("a={} b={} c={}", show(a), show(b), show(c)), format!("{outs:?}"), "the same outcome for every grouping and order".into());
            }
        }
    } } }
    println!("CASES c16_packed_triples {cases}");
}
