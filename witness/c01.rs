//! C01: totality through the public entry point on boundary-constant programs (never a panic).
use crate::{boundary_words, c08::{analyze, Out}, scale, witness, Rng};

fn push32(w: ethnum::U256) -> Vec<u8> { let mut v = vec![0x7f]; v.extend(w.to_be_bytes()); v }

#[test]
fn c01_boundary_constant_programs_do_not_panic() {
    std::panic::set_hook(Box::new(|_| {}));
    let bw = boundary_words();
    // opcodes that consume (a, b) with a on top: arithmetic, shifts, memory, hashing, copies, storage, jumps
    let binops: [u8; 24] = [0x01, 0x02, 0x03, 0x04, 0x05, 0x06, 0x07, 0x0a, 0x0b, 0x10, 0x11, 0x12, 0x13, 0x14, 0x16, 0x17, 0x18, 0x1a, 0x1b, 0x1c, 0x1d, 0x20, 0x52, 0x55];
    let mut cases = 0u64;
    let mut rng = Rng::seeded(1);
    for &op in &binops {
        for _ in 0..3 * scale() {
            let a = bw[rng.below(bw.len() as u64) as usize];
            let b = bw[rng.below(bw.len() as u64) as usize];
            // PUSH b PUSH a OP ; then use the result as a storage key so that later stages see it
            let mut code = push32(b);
            code.extend(push32(a));
            code.push(op);
            if ![0x52u8, 0x55].contains(&op) { code.extend([0x54, 0x50]); }
            code.push(0x00);
            for perm in [false, true] {
                if let Out::Panic = analyze(&code, perm) {
                    witness("C01", "analyze.panic", format!("PUSH32 {b:#x} PUSH32 {a:#x} op {op:#04x} permissive={perm}"), "PANIC".into(), "layout or error".into());
                }
                cases += 1;
            }
        }
    }
    // three-operand copies and hashing with boundary offsets/sizes: CALLDATACOPY CODECOPY RETURNDATACOPY, SHA3 result stored
    for &op in &[0x37u8, 0x39, 0x3e] {
        for _ in 0..3 * scale() {
            let (a, b, c) = (bw[rng.below(bw.len() as u64) as usize], bw[rng.below(bw.len() as u64) as usize], bw[rng.below(bw.len() as u64) as usize]);
            let mut code = push32(c);
            code.extend(push32(b));
            code.extend(push32(a));
            code.push(op);
            code.extend([0x60, 0x00, 0x51, 0x60, 0x00, 0x55, 0x00]);
            if let Out::Panic = analyze(&code, true) { witness("C01", "analyze.panic", format!("copy {op:#04x} ({a:#x},{b:#x},{c:#x})"), "PANIC".into(), "layout or error".into()); }
            cases += 1;
        }
    }
    println!("CASES c01_boundary_programs {cases}");
}

/// crafted patterns that feed truncated 256-bit constants into usize arithmetic of the lifting passes / rules
#[test]
fn c01_crafted_shift_and_offset_patterns() {
    std::panic::set_hook(Box::new(|_| {}));
    let mut progs: Vec<(String, Vec<u8>)> = vec![];
    for shift in [0xffu64, 0x100, 0x101, 0xffff_ffff, u64::MAX - 7, u64::MAX] {
        for mask in [[0x00u8, 0xff], [0xff, 0x00]] {
            // CALLDATASIZE PUSH8 shift SHR PUSH2 mask AND PUSH1 0 SSTORE STOP   ((x >> shift) & mask stored)
            let mut c = vec![0x36, 0x67];
            c.extend(shift.to_be_bytes());
            c.push(0x1c);
            c.push(0x61);
            c.extend(mask);
            c.extend([0x16, 0x60, 0x00, 0x55, 0x00]);
            progs.push((format!("(calldatasize >> {shift:#x}) & {mask:02x?} -> sstore"), c));
            // same with the value loaded from storage first: PUSH1 0 SLOAD PUSH8 shift SHR PUSH2 mask AND PUSH1 1 SSTORE
            let mut c = vec![0x60, 0x00, 0x54, 0x67];
            c.extend(shift.to_be_bytes());
            c.push(0x1c);
            c.push(0x61);
            c.extend(mask);
            c.extend([0x16, 0x60, 0x01, 0x55, 0x00]);
            progs.push((format!("(sload(0) >> {shift:#x}) & {mask:02x?} -> sstore"), c));
        }
    }
    // mapping slot plus a huge constant: sstore(keccak(calldatasize ++ 1) + c, 1)
    for c in [1u64, 0x100, 1 << 55, 1 << 56, 1 << 60, u64::MAX] {
        let mut code = vec![0x36, 0x60, 0x00, 0x52, 0x60, 0x01, 0x60, 0x20, 0x52, 0x60, 0x40, 0x60, 0x00, 0x20, 0x67];
        code.extend(c.to_be_bytes());
        code.extend([0x01, 0x60, 0x01, 0x90, 0x55, 0x00]);
        progs.push((format!("sstore(keccak(calldatasize ++ 1) + {c:#x}, 1)"), code));
    }
    let n = progs.len();
    for (name, code) in progs {
        for perm in [false, true] {
            if let Out::Panic = analyze(&code, perm) {
                witness("C01", "analyze.panic.crafted_offsets", format!("{name}: {code:02x?} permissive={perm}"), "PANIC".into(), "layout or error".into());
            }
        }
    }
    println!("CASES c01_crafted {n}");
}

/// boundary constants as offsets/sizes of every memory-touching opcode (copies, hashing, logs, calls, creates, returns)
#[test]
fn c01_memory_operand_boundaries() {
    std::panic::set_hook(Box::new(|_| {}));
    let bw: Vec<ethnum::U256> = {
        let one = ethnum::U256::ONE;
        vec![ethnum::U256::ZERO, one, ethnum::U256::new(31), ethnum::U256::new(32), ethnum::U256::new(33), ethnum::U256::new(1 << 32), ethnum::U256::new((1u128 << 64) - 32), ethnum::U256::new((1u128 << 64) - 31),
             ethnum::U256::new((1u128 << 64) - 1), ethnum::U256::new(1u128 << 64), one << 255u32, ethnum::U256::MAX]
    };
    // (opcode, number of stack operands)
    let ops: [(u8, usize); 19] = [(0x20, 2), (0x37, 3), (0x39, 3), (0x3c, 4), (0x3e, 3), (0x51, 1), (0x52, 2), (0x53, 2), (0xa0, 2), (0xa1, 3), (0xa2, 4),
                                 (0xf0, 3), (0xf1, 7), (0xf2, 7), (0xf3, 2), (0xf4, 6), (0xf5, 4), (0xfa, 6), (0xfd, 2)];
    let mut rng = Rng::seeded(77);
    let mut cases = 0u64;
    for (op, n) in ops {
        for round in 0..(10 * scale()) {
            let mut code = vec![];
            let mut desc = vec![];
            for k in 0..n {
                // sweep one operand over the whole boundary set while the others are small, then go random
                let w = if round < bw.len() as u64 && k == (round as usize % n) { bw[round as usize] } else if rng.below(3) == 0 { bw[rng.below(bw.len() as u64) as usize] } else { ethnum::U256::new(rng.below(96) as u128) };
                code.extend(push32(w));
                desc.push(format!("{w:#x}"));
            }
            code.push(op);
            code.push(0x00);
            if let Out::Panic = analyze(&code, true) {
                witness("C01", "analyze.panic.memory_operands", format!("op {op:#04x} operands(pushed first..last)={desc:?} code={code:02x?}"), "PANIC".into(), "layout or error".into());
            }
            cases += 1;
        }
    }
    println!("CASES c01_memory_operands {cases}");
}

/// cyclic type evidence (a slot used as element / key / value of itself): must end in a layout or an error,
/// never in unbounded recursion.  `RUNNING` lines let the runner name the input if the process is killed.
#[test]
fn c01_cyclic_type_evidence_terminates() {
    use std::io::Write;
    let progs: Vec<(&str, Vec<u8>)> = vec![
        ("dynamic array of itself: v=sload(0); sstore(keccak(0)+calldataload(0), v)", vec![0x5f, 0x54, 0x5f, 0x5f, 0x52, 0x60, 0x20, 0x5f, 0x20, 0x5f, 0x35, 0x01, 0x55, 0x00]),
        ("mapping whose value is itself: sstore(keccak(calldataload(0) ++ 0), sload(0))", vec![0x5f, 0x54, 0x5f, 0x35, 0x5f, 0x52, 0x5f, 0x60, 0x20, 0x52, 0x60, 0x40, 0x5f, 0x20, 0x55, 0x00]),
        ("mapping keyed by itself: sstore(keccak(sload(0) ++ 0), 1)", vec![0x5f, 0x54, 0x5f, 0x52, 0x5f, 0x60, 0x20, 0x52, 0x60, 0x40, 0x5f, 0x20, 0x60, 0x01, 0x90, 0x55, 0x00]),
        ("array element stored back into the array: a[i] = a[j]", vec![0x5f, 0x5f, 0x52, 0x60, 0x20, 0x5f, 0x20, 0x80, 0x5f, 0x35, 0x01, 0x54, 0x90, 0x60, 0x20, 0x35, 0x01, 0x55, 0x00]),
    ];
    let n = progs.len();
    for (name, code) in progs {
        println!("RUNNING c01_cyclic {name}: {code:02x?}");
        std::io::stdout().flush().ok();
        if let Out::Panic = analyze(&code, true) {
            witness("C01", "analyze.panic.cyclic_types", format!("{name}: {code:02x?}"), "PANIC".into(), "layout or error".into());
        }
    }
    println!("CASES c01_cyclic {n}");
}

// ---------------------------------------------------------------------------------------------
// structured, stack-balanced storage idioms in random sequences: the whole pipeline must never panic
fn p1(b: u8) -> Vec<u8> { vec![0x60, b] }
fn pw(w: ethnum::U256) -> Vec<u8> {
    let bytes = w.to_be_bytes();
    let first = bytes.iter().position(|b| *b != 0).unwrap_or(31);
    let mut v = vec![0x60 + (31 - first) as u8];
    v.extend(&bytes[first..]);
    v
}
/// a snippet that leaves one word on the stack
fn value(rng: &mut Rng, slot: &ethnum::U256) -> Vec<u8> {
    match rng.below(9) {
        0 => vec![0x33],                                   // CALLER
        1 => vec![0x30],                                   // ADDRESS
        2 => { let mut v = vec![0x36, 0x15]; if rng.below(2) == 0 { v.push(0x15); } v }   // ISZERO(CALLDATASIZE)
        3 => { let mut v = p1((rng.below(4) * 32) as u8); v.push(0x35); v }               // CALLDATALOAD(c)
        4 => pw(ethnum::U256::new(rng.below(300) as u128)),
        5 => { let mut v = pw(*slot); v.push(0x54); v }                                    // SLOAD(slot)
        6 => { let mut v = pw(*slot); v.push(0x54); v.extend(pw((ethnum::U256::ONE << (8 * (1 + rng.below(31)) as u32)) - ethnum::U256::ONE)); v.push(0x16); v }   // SLOAD & lowmask
        7 => vec![0x42],                                   // TIMESTAMP
        _ => { let mut v = vec![0x34]; v.extend(p1(1)); v.push(0x01); v }                  // CALLVALUE + 1
    }
}
/// a snippet that leaves a storage key on the stack
fn key(rng: &mut Rng, slot: &ethnum::U256) -> Vec<u8> {
    match rng.below(7) {
        0 | 1 => pw(*slot),
        2 => {
            // mapping: keccak(value ++ slot) [+ c]
            let mut v = value(rng, slot);
            v.extend([0x5f, 0x52]);
            v.extend(pw(*slot));
            v.extend([0x60, 0x20, 0x52, 0x60, 0x40, 0x5f, 0x20]);
            if rng.below(3) == 0 {
                // struct member offset: small, or a boundary constant (the projection is multiplied by 256 and added to sizes)
                let big = [ethnum::U256::new((1 << 56) - 1), ethnum::U256::new(1 << 56), ethnum::U256::new((1 << 56) - 2), ethnum::U256::new(u64::MAX as u128), ethnum::U256::new(1 << 64), ethnum::U256::ONE << 255u32, ethnum::U256::MAX, ethnum::U256::new(1 << 48)];
                let c = if rng.below(3) == 0 { big[rng.below(big.len() as u64) as usize] } else { ethnum::U256::new(1 + rng.below(3) as u128) };
                v.extend(pw(c)); v.push(0x01);
            }
            v
        }
        3 => {
            // dynamic array: keccak(mem[0..size]) + index, with odd pre-image sizes too
            let size = [0u8, 1, 31, 32, 33, 64, 96][rng.below(7) as usize];
            let mut v = pw(*slot);
            v.extend([0x5f, 0x52]);
            v.extend(p1(size));
            v.extend([0x5f, 0x20]);
            v.extend(value(rng, slot));
            v.push(0x01);
            v
        }
        4 => {
            // nested mapping
            let mut v = value(rng, slot);
            v.extend([0x5f, 0x52]);
            v.extend(pw(*slot));
            v.extend([0x60, 0x20, 0x52, 0x60, 0x40, 0x5f, 0x20, 0x60, 0x20, 0x52, 0x33, 0x5f, 0x52, 0x60, 0x40, 0x5f, 0x20]);
            v
        }
        5 => { let mut v = pw(*slot); v.extend(value(rng, slot)); v.push(0x01); v }        // slot + value
        _ => value(rng, slot),                                                             // fully symbolic key
    }
}
fn idiom(rng: &mut Rng, slots: &[ethnum::U256]) -> Vec<u8> {
    let slot = slots[rng.below(slots.len() as u64) as usize];
    let mut v = vec![];
    match rng.below(8) {
        0 | 1 => { v.extend(value(rng, &slot)); v.extend(key(rng, &slot)); v.push(0x55); }                 // sstore(key, value)
        2 => { v.extend(key(rng, &slot)); v.extend([0x54, 0x50]); }                                           // sload(key); pop
        3 => {
            // in-place partial clear / keep: sstore(k, and(sload(k), mask))
            let w = 8 * (1 + rng.below(31)) as u32;
            let mask = if rng.below(2) == 0 { (ethnum::U256::ONE << w) - ethnum::U256::ONE } else { !((ethnum::U256::ONE << w) - ethnum::U256::ONE) };
            v.extend(pw(mask)); v.extend(pw(slot)); v.push(0x54); v.push(0x16); v.extend(pw(slot)); v.push(0x55);
        }
        4 => {
            // packed field write: sstore(k, or(and(sload(k), not(mask << s)), shl(s, and(value, mask))))
            let w = 8 * (1 + rng.below(20)) as u32;
            let sft = 8 * rng.below(32) as u32;
            let mask = (ethnum::U256::ONE << w) - ethnum::U256::ONE;
            v.extend(pw(!(mask << sft))); v.extend(pw(slot)); v.push(0x54); v.push(0x16);
            v.extend(pw(mask)); v.extend(value(rng, &slot)); v.push(0x16); v.extend(pw(ethnum::U256::new(sft as u128))); v.push(0x1b);
            v.push(0x17); v.extend(pw(slot)); v.push(0x55);
        }
        5 => {
            // field read: and(shr(s, sload(k)), mask) stored elsewhere
            let w = 8 * (1 + rng.below(20)) as u32;
            v.extend(pw((ethnum::U256::ONE << w) - ethnum::U256::ONE)); v.extend(pw(slot)); v.push(0x54); v.extend(pw(ethnum::U256::new(8 * rng.below(40) as u128))); v.push(0x1c); v.push(0x16);
            v.extend(key(rng, &slot)); v.push(0x55);
        }
        6 => { v.extend(value(rng, &slot)); v.extend(key(rng, &slot)); v.push(0x54); v.push(0x01); v.extend(key(rng, &slot)); v.push(0x55); }   // s[k2] = s[k1] + v
        _ => { v.extend(p1((rng.below(3) * 32) as u8)); v.extend(p1(0)); v.extend(p1((rng.below(3) * 32) as u8)); v.push(0x37); }   // calldatacopy
    }
    v
}

fn run_idioms(seed: u64, n: u64) {
    use std::io::Write;
    std::panic::set_hook(Box::new(|_| {}));
    let slots = [ethnum::U256::ZERO, ethnum::U256::ONE, ethnum::U256::new(2), ethnum::U256::new(1 << 64), ethnum::U256::MAX];
    let mut rng = Rng::seeded(seed);
    for _ in 0..n {
        let mut code = vec![];
        let used = &slots[..(1 + rng.below(3) as usize)];
        for _ in 0..1 + rng.below(5) { code.extend(idiom(&mut rng, used)); }
        code.push(0x00);
        println!("RUNNING c01_idioms {code:02x?}");
        std::io::stdout().flush().ok();
        if let Out::Panic = analyze(&code, rng.below(2) == 0) {
            witness("C01", "analyze.panic.storage_idioms", format!("{code:02x?}"), "PANIC".into(), "layout or error".into());
        }
    }
    println!("CASES c01_idioms_{seed} {n}");
}
#[test] fn c01_storage_idiom_sequences_a() { run_idioms(101, 60 * scale()); }
#[test] fn c01_storage_idiom_sequences_b() { run_idioms(102, 60 * scale()); }
#[test] fn c01_storage_idiom_sequences_c() { run_idioms(103, 60 * scale()); }
#[test] fn c01_storage_idiom_sequences_d() { run_idioms(104, 60 * scale()); }
#[test] fn c01_storage_idiom_sequences_e() { run_idioms(105, 60 * scale()); }
#[test] fn c01_storage_idiom_sequences_f() { run_idioms(106, 60 * scale()); }

/// long repetitive programs up to the 24 KiB contract limit: value trees and wrappers must not nest without bound
#[test]
fn c01_long_repetitive_programs_terminate() {
    use std::io::Write;
    std::panic::set_hook(Box::new(|_| {}));
    // (name, prologue, repeated block, epilogue)
    let fams: Vec<(&str, Vec<u8>, Vec<u8>, Vec<u8>)> = vec![
        ("copy a loaded word back and forth between two slots", vec![0x60, 0x01, 0x60, 0x00], vec![0x80, 0x54, 0x82, 0x55, 0x81, 0x54, 0x81, 0x55], vec![0x00]),
        ("store the loaded word of the same slot again", vec![0x60, 0x00], vec![0x80, 0x54, 0x81, 0x55], vec![0x00]),
        ("mload / mstore ping-pong between two offsets", vec![0x60, 0x20, 0x60, 0x00], vec![0x80, 0x51, 0x82, 0x52, 0x81, 0x51, 0x81, 0x52], vec![0x00]),
        ("hash the previous hash", vec![0x36, 0x5f, 0x52], vec![0x60, 0x20, 0x5f, 0x20, 0x5f, 0x52], vec![0x5f, 0x51, 0x5f, 0x55, 0x00]),
        ("nested mapping of the previous slot", vec![0x5f], vec![0x5f, 0x52, 0x33, 0x60, 0x20, 0x52, 0x60, 0x40, 0x5f, 0x20], vec![0x60, 0x01, 0x90, 0x55, 0x00]),
        ("dup-add growth", vec![0x36], vec![0x80, 0x01], vec![0x5f, 0x55, 0x00]),
        // every one-operand instruction applied to its own result, over and over (the result is stored at the end)
        ("ISZERO chain", vec![0x36], vec![0x15], vec![0x5f, 0x55, 0x00]),
        ("NOT chain", vec![0x36], vec![0x19], vec![0x5f, 0x55, 0x00]),
        ("BALANCE chain", vec![0x36], vec![0x31], vec![0x5f, 0x55, 0x00]),
        ("CALLDATALOAD chain", vec![0x36], vec![0x35], vec![0x5f, 0x55, 0x00]),
        ("EXTCODESIZE chain", vec![0x36], vec![0x3b], vec![0x5f, 0x55, 0x00]),
        ("EXTCODEHASH chain", vec![0x36], vec![0x3f], vec![0x5f, 0x55, 0x00]),
        ("BLOCKHASH chain", vec![0x36], vec![0x40], vec![0x5f, 0x55, 0x00]),
        ("MLOAD chain", vec![0x36], vec![0x51], vec![0x5f, 0x55, 0x00]),
        // (an SLOAD chain is left out: each link DOUBLES the value — recorded finding D29 — so 30 links would run for hours; c18 measures it on 8 links)
        ("CREATE2 of its own result as the salt", vec![0x36], vec![0x5f, 0x5f, 0x5f, 0xf5], vec![0x5f, 0x55, 0x00]),
    ];
    let mut cases = 0;
    for (name, pro, block, epi) in fams {
        let longest = (24000 - pro.len() - epi.len()) / block.len();
        for reps in [50usize, 800, longest] {
            let mut code = pro.clone();
            for _ in 0..reps { code.extend(&block); }
            code.extend(&epi);
            println!("RUNNING c01_long {name} x{reps} ({} bytes): prologue {pro:02x?} block {block:02x?} epilogue {epi:02x?}", code.len());
            std::io::stdout().flush().ok();
            // the analysis runs on a thread with the default 8 MiB of a main thread, like a caller would
            let c2 = code.clone();
            let h = std::thread::Builder::new().stack_size(8 << 20).spawn(move || matches!(analyze(&c2, true), Out::Panic)).unwrap();
            if let Ok(true) = h.join() {
                witness("C01", "analyze.panic.long_programs", format!("{name} x{reps}: prologue {pro:02x?} block {block:02x?} epilogue {epi:02x?}"), "PANIC".into(), "layout or error".into());
            }
            cases += 1;
        }
    }
    println!("CASES c01_long {cases}");
}

/// two (or three) stores through the same mapping at struct-member offsets taken from the boundary constants: the member
/// offset is turned into a bit position (x 256) and later added to sizes when the members' types meet
#[test]
fn c01_mapping_member_offsets_at_the_boundaries() {
    use std::io::Write;
    std::panic::set_hook(Box::new(|_| {}));
    let one = ethnum::U256::ONE;
    let offs = [ethnum::U256::ZERO, one, ethnum::U256::new(2), ethnum::U256::new((1 << 56) - 2), ethnum::U256::new((1 << 56) - 1), ethnum::U256::new(1 << 56), ethnum::U256::new((1 << 56) + 1),
        ethnum::U256::new(u64::MAX as u128 >> 8), ethnum::U256::new(u64::MAX as u128), one << 64u32, one << 128u32, one << 255u32, ethnum::U256::MAX];
    let store = |c: &ethnum::U256, key_src: u8| -> Vec<u8> {
        // sstore(keccak(<key_src> ++ 1) + c, 1)
        let mut v = vec![0x60, 0x01, key_src, 0x5f, 0x52, 0x60, 0x01, 0x60, 0x20, 0x52, 0x60, 0x40, 0x5f, 0x20];
        v.extend(pw(*c)); v.extend([0x01, 0x55]);
        v
    };
    let mut cases = 0;
    for a in &offs { for b in &offs {
        for key_src in [0x36u8, 0x33] {
            let mut code = store(a, key_src);
            code.extend(store(b, key_src));
            if (a.as_u64() ^ b.as_u64()) & 1 == 1 { code.extend(store(&(one << 56u32), key_src)); }
            code.push(0x00);
            println!("RUNNING c01_mapping_offsets {code:02x?}");
            std::io::stdout().flush().ok();
            if let Out::Panic = analyze(&code, true) {
                witness("C01", "analyze.panic.mapping_member_offsets", format!("mapping stores at member offsets {a:#x} and {b:#x}: {code:02x?}"), "PANIC".into(), "layout or error".into());
            }
            cases += 1;
        }
    } }
    println!("CASES c01_mapping_offsets {cases}");
}

/// storage keys that are hashes of CONSTANT memory (1 to 4 words): the word values an ABI-encoded string starts with (0x20,
/// a small length, printable bytes), slot numbers, boundary constants — used as they are, plus a constant, plus call data;
/// the proxy-slot and hashed-slot recognisers index into these word lists
#[test]
fn c01_keys_hashed_from_constant_words() {
    use std::io::Write;
    std::panic::set_hook(Box::new(|_| {}));
    let ascii = |s: &str| { let mut b = [0u8; 32]; b[..s.len()].copy_from_slice(s.as_bytes()); ethnum::U256::from_be_bytes(b) };
    let words = [ethnum::U256::new(0x20), ethnum::U256::new(0x40), ethnum::U256::ZERO, ethnum::U256::ONE, ethnum::U256::new(5), ethnum::U256::new(31), ethnum::U256::new(33),
        ascii("hello"), ascii("eip1967.proxy.implementation"), ascii("AAAAAAAAAAAAAAAAAAAAAAAAAAAAAAAA"), ethnum::U256::MAX, ethnum::U256::ONE << 255u32, ethnum::U256::new(1 << 64)];
    let mut rng = Rng::seeded(4242);
    let mut progs: Vec<Vec<u8>> = vec![];
    let mut lists: Vec<Vec<ethnum::U256>> = vec![];
    for w in &words { lists.push(vec![*w]); }
    for a in &words[..6] { for b in &words[..8] { lists.push(vec![*a, *b]); } }
    for _ in 0..30 { let n = 3 + rng.below(2) as usize; lists.push((0..n).map(|_| words[rng.below(words.len() as u64) as usize]).collect()); }
    for l in &lists {
        for (k, tail) in [vec![0x54u8, 0x50], vec![0x60, 0x00, 0x35, 0x90, 0x55], vec![0x60, 0x01, 0x01, 0x54, 0x50], vec![0x60, 0x00, 0x35, 0x01, 0x33, 0x90, 0x55]].iter().enumerate() {
            if l.len() > 2 && k % 2 == 1 { continue; }
            let mut c = vec![];
            for (i, w) in l.iter().enumerate() { c.extend(push32(*w)); c.extend([0x60, (32 * i) as u8, 0x52]); }
            // size: all the words, and one byte less / more for single words
            c.extend([0x60, (32 * l.len()) as u8, 0x60, 0x00, 0x20]);
            c.extend(tail);
            c.push(0x00);
            progs.push(c);
        }
    }
    let n = progs.len();
    for code in progs {
        println!("RUNNING c01_hashed_constant_keys {code:02x?}");
        std::io::stdout().flush().ok();
        if let Out::Panic = analyze(&code, true) {
            witness("C01", "analyze.panic.keys_hashed_from_constant_words", format!("{code:02x?}"), "PANIC".into(), "layout or error".into());
        }
    }
    println!("CASES c01_hashed_constant_keys {n}");
}

/// "all VM configurations with positive limits": every limit at 1, 2 and at the top of its range (usize::MAX, MAX - 1), alone
/// and together, on programs that fork, loop, copy, grow values and run out of gas — a layout or an error, never a panic
#[test]
fn c01_extreme_configurations_do_not_panic() {
    use std::io::Write;
    use storage_layout_extractor::{self as sle, extractor::{chain::{version::EthereumVersion, Chain}, contract::Contract}, vm::Config, watchdog::LazyWatchdog};
    std::panic::set_hook(Box::new(|_| {}));
    let programs: Vec<(&str, Vec<u8>)> = vec![
        ("fork", vec![0x36, 0x60, 0x05, 0x57, 0x00, 0x5b, 0x60, 0x01, 0x60, 0x00, 0x55, 0x00]),
        ("two forks to one target", vec![0x36, 0x60, 0x09, 0x57, 0x34, 0x60, 0x09, 0x57, 0x00, 0x5b, 0x33, 0x60, 0x01, 0x55, 0x00]),
        ("loop", vec![0x5b, 0x36, 0x60, 0x01, 0x01, 0x60, 0x00, 0x55, 0x36, 0x60, 0x00, 0x57, 0x00]),
        ("calldatacopy and hash", vec![0x60, 0x40, 0x60, 0x00, 0x60, 0x00, 0x37, 0x60, 0x40, 0x60, 0x00, 0x20, 0x54, 0x50, 0x00]),
        ("growing value", vec![0x36, 0x80, 0x02, 0x80, 0x02, 0x80, 0x02, 0x80, 0x02, 0x60, 0x00, 0x55, 0x00]),
        ("packed write", vec![0x60, 0xff, 0x60, 0x00, 0x35, 0x16, 0x60, 0x08, 0x1b, 0x61, 0xff, 0x00, 0x19, 0x60, 0x01, 0x54, 0x16, 0x17, 0x60, 0x01, 0x55, 0x00]),
    ];
    let vals: Vec<usize> = if scale() > 1 { vec![1, 2, usize::MAX - 1, usize::MAX] } else { vec![1, usize::MAX] };
    let mut cfgs: Vec<(String, Config)> = vec![];
    for v in vals {
        cfgs.push((format!("gas_limit={v}"), Config::default().with_gas_limit(v)));
        cfgs.push((format!("max_iterations_per_opcode={v}"), Config::default().with_max_iterations_per_opcode(v.min(4).max(if v > 4 { 3 } else { v }))));
        cfgs.push((format!("max_forks_per_fork_target={v}"), Config::default().with_max_forks_per_fork_target(v)));
        cfgs.push((format!("value_size_limit={v}"), Config::default().with_value_size_limit(v)));
        cfgs.push((format!("memory_max_bytes={v}"), Config::default().with_memory_max_bytes(v)));
        cfgs.push((format!("all limits={v} (iterations 2)"), Config::default().with_gas_limit(v).with_max_forks_per_fork_target(v).with_value_size_limit(v).with_memory_max_bytes(v).with_max_iterations_per_opcode(2)));
    }
    let mut cases = 0;
    for (cname, cfg) in &cfgs {
        for (pname, code) in &programs {
            for permissive in [false, true] {
                println!("RUNNING c01_extreme_configurations {cname} permissive={permissive} {pname} {code:02x?}");
                std::io::stdout().flush().ok();
                let (c2, cfg2) = (code.clone(), cfg.clone().with_permissive_errors(permissive));
                let r = std::panic::catch_unwind(move || {
                    let contract = Contract::new(c2, Chain::Ethereum { version: EthereumVersion::Shanghai });
                    let _ = sle::new(contract, cfg2, sle::tc::Config::default(), LazyWatchdog.in_rc()).analyze();
                });
                if r.is_err() { witness("C01", "analyze.panic.extreme_configuration", format!("{cname} permissive={permissive} program \"{pname}\" {code:02x?}"), "PANIC".into(), "layout or error".into()); }
                cases += 1;
            }
        }
    }
    println!("CASES c01_extreme_configurations {cases}");
}

/// "every valid configuration" includes the type checker's: the default list of lifting passes with any ONE pass left out,
/// an empty list, and an empty rule set — on the storage idioms and on programs that use one value as key, operand and
/// stored word at once; a layout or an error, never a panic
#[test]
fn c01_custom_pass_and_rule_sets_do_not_panic() {
    use std::io::Write;
    use storage_layout_extractor::{self as sle, extractor::{chain::{version::EthereumVersion, Chain}, contract::Contract}, tc, vm, watchdog::LazyWatchdog,
        tc::lift::{Lift, LiftingPasses, dynamic_array_access::DynamicArrayIndex, mapping_index::MappingIndex, mapping_offset::MappingOffset, mul_shifted::MulShiftedValue, packed_encoding::PackedEncoding,
                   proxy_slots::ProxySlots, recognise_hashed_slots::StorageSlotHashes, storage_slots::StorageSlots, sub_word::SubWordValue}};
    std::panic::set_hook(Box::new(|_| {}));
    let passes = |skip: Option<usize>| -> LiftingPasses {
        let all: Vec<Box<dyn Lift>> = vec![StorageSlotHashes::new(), ProxySlots::new(), MappingIndex::new(), SubWordValue::new(), MulShiftedValue::new(), PackedEncoding::new(), DynamicArrayIndex::new(), StorageSlots::new(), MappingOffset::new()];
        LiftingPasses::new(all.into_iter().enumerate().filter(|(i, _)| Some(*i) != skip).map(|(_, p)| p).collect::<Vec<_>>())
    };
    let mut programs: Vec<Vec<u8>> = vec![
        vec![0x36, 0x80, 0x80, 0x01, 0x90, 0x80, 0x55, 0x00],                                  // sstore(cds, cds) with cds also an ADD operand
        vec![0x36, 0x80, 0x55, 0x00],                                                          // sstore(cds, cds)
        vec![0x5f, 0x54, 0x80, 0x55, 0x00],                                                    // sstore(sload(0), sload(0))
        vec![0x60, 0xff, 0x60, 0x00, 0x35, 0x16, 0x60, 0x08, 0x1b, 0x61, 0xff, 0x00, 0x19, 0x60, 0x01, 0x54, 0x16, 0x17, 0x60, 0x01, 0x55, 0x00],
        vec![0x33, 0x5f, 0x52, 0x60, 0x01, 0x60, 0x20, 0x52, 0x60, 0x40, 0x5f, 0x20, 0x80, 0x54, 0x60, 0x01, 0x01, 0x90, 0x55, 0x00], // m[caller] += 1
        vec![0x5f, 0x5f, 0x52, 0x60, 0x20, 0x5f, 0x20, 0x5f, 0x35, 0x01, 0x80, 0x54, 0x90, 0x55, 0x00],                                 // a[cd(0)] = a[cd(0)]
    ];
    let mut rng = Rng::seeded(4711);
    let slots = [ethnum::U256::ZERO, ethnum::U256::ONE, ethnum::U256::new(1 << 64)];
    for _ in 0..6 { let mut c = vec![]; for _ in 0..1 + rng.below(3) { c.extend(idiom(&mut rng, &slots)); } c.push(0x00); programs.push(c); }
    let mut cases = 0;
    // quick tier: the default list, without the sub-word pass, without the storage-slot pass, with no pass at all; thorough: every single omission
    let skips: Vec<Option<usize>> = if scale() > 1 { (0..9).map(Some).chain([None, Some(usize::MAX)]).collect() } else { vec![None, Some(3), Some(7), Some(usize::MAX)] };
    for skip in skips {
        for empty_rules in [false, true] {
            if empty_rules && skip != None { continue; }
            for code in &programs {
                let lp = if skip == Some(usize::MAX) { LiftingPasses::new(Vec::<Box<dyn Lift>>::new()) } else { passes(skip) };
                let cfg = tc::Config::default().with_lifting_passes(lp);
                let cfg = if empty_rules { cfg.with_inference_rules(tc::rule::InferenceRules::new()) } else { cfg };
                println!("RUNNING c01_custom_passes without pass {skip:?} empty_rules={empty_rules} {code:02x?}");
                std::io::stdout().flush().ok();
                let c2 = code.clone();
                let r = std::panic::catch_unwind(std::panic::AssertUnwindSafe(move || {
                    let contract = Contract::new(c2, Chain::Ethereum { version: EthereumVersion::Shanghai });
                    let _ = sle::new(contract, vm::Config::default().with_permissive_errors(true), cfg, LazyWatchdog.in_rc()).analyze();
                }));
                if r.is_err() { witness("C01", "analyze.panic.custom_pass_or_rule_set", format!("default lifting passes without #{skip:?} (usize::MAX = none at all), empty rule set: {empty_rules}; {code:02x?}"), "PANIC".into(), "layout or error".into()); }
                cases += 1;
            }
        }
    }
    println!("CASES c01_custom_passes {cases}");
}
