//! C01: totality through the public entry point on boundary-constant programs (never a panic).
use crate::{boundary_words, c08::{analyze, Out}, scale, witness, Rng};

fn push32(w: ethnum::U256) -> Vec<u8> { let mut v = vec![0x7f]; v.extend(w.to_be_bytes()); v }

#[test]
fn c01_boundary_constant_programs_do_not_panic() {
    std::panic::set_hook(Box::new(|_| {}));
    let bw = boundary_words();
    // opcodes that consume (a, b) with a on top: arithmetic, shifts, memory, hashing, copies, storage, jumps
    let binops: [u8; 24] = [0x01, 0x02, 0x03, 0x04, 0x05, 0x06, 0x07, 0x0a, 0x0b, 0x10, 0x11, 0x12, 0x13, 0x14, 0x16, 0x17, 0x18, 0x1a, 0x1b, 0x1c, 0x1d, 0x20, 0x52, 0x55];
    let mut cases = 0u64;
    let mut rng = Rng::seeded(1);
    for &op in &binops {
        for _ in 0..3 * scale() {
            let a = bw[rng.below(bw.len() as u64) as usize];
            let b = bw[rng.below(bw.len() as u64) as usize];
            // PUSH b PUSH a OP ; then use the result as a storage key so that later stages see it
            let mut code = push32(b);
            code.extend(push32(a));
            code.push(op);
            if ![0x52u8, 0x55].contains(&op) { code.extend([0x54, 0x50]); }
            code.push(0x00);
            for perm in [false, true] {
                if let Out::Panic = analyze(&code, perm) {
                    witness("C01", "analyze.panic", format!("PUSH32 {b:#x} PUSH32 {a:#x} op {op:#04x} permissive={perm}"), "PANIC".into(), "layout or error".into());
                }
                cases += 1;
            }
        }
    }
    // three-operand copies and hashing with boundary offsets/sizes: CALLDATACOPY CODECOPY RETURNDATACOPY, SHA3 result stored
    for &op in &[0x37u8, 0x39, 0x3e] {
        for _ in 0..3 * scale() {
            let (a, b, c) = (bw[rng.below(bw.len() as u64) as usize], bw[rng.below(bw.len() as u64) as usize], bw[rng.below(bw.len() as u64) as usize]);
            let mut code = push32(c);
            code.extend(push32(b));
            code.extend(push32(a));
            code.push(op);
            code.extend([0x60, 0x00, 0x51, 0x60, 0x00, 0x55, 0x00]);
            if let Out::Panic = analyze(&code, true) { witness("C01", "analyze.panic", format!("copy {op:#04x} ({a:#x},{b:#x},{c:#x})"), "PANIC".into(), "layout or error".into()); }
            cases += 1;
        }
    }
    println!("CASES c01_boundary_programs {cases}");
}

/// crafted patterns that feed truncated 256-bit constants into usize arithmetic of the lifting passes / rules
#[test]
fn c01_crafted_shift_and_offset_patterns() {
    std::panic::set_hook(Box::new(|_| {}));
    let mut progs: Vec<(String, Vec<u8>)> = vec![];
    for shift in [0xffu64, 0x100, 0x101, 0xffff_ffff, u64::MAX - 7, u64::MAX] {
        for mask in [[0x00u8, 0xff], [0xff, 0x00]] {
            // CALLDATASIZE PUSH8 shift SHR PUSH2 mask AND PUSH1 0 SSTORE STOP   ((x >> shift) & mask stored)
            let mut c = vec![0x36, 0x67];
            c.extend(shift.to_be_bytes());
            c.push(0x1c);
            c.push(0x61);
            c.extend(mask);
            c.extend([0x16, 0x60, 0x00, 0x55, 0x00]);
            progs.push((format!("(calldatasize >> {shift:#x}) & {mask:02x?} -> sstore"), c));
            // same with the value loaded from storage first: PUSH1 0 SLOAD PUSH8 shift SHR PUSH2 mask AND PUSH1 1 SSTORE
            let mut c = vec![0x60, 0x00, 0x54, 0x67];
            c.extend(shift.to_be_bytes());
            c.push(0x1c);
            c.push(0x61);
            c.extend(mask);
            c.extend([0x16, 0x60, 0x01, 0x55, 0x00]);
            progs.push((format!("(sload(0) >> {shift:#x}) & {mask:02x?} -> sstore"), c));
        }
    }
    // mapping slot plus a huge constant: sstore(keccak(calldatasize ++ 1) + c, 1)
    for c in [1u64, 0x100, 1 << 55, 1 << 56, 1 << 60, u64::MAX] {
        let mut code = vec![0x36, 0x60, 0x00, 0x52, 0x60, 0x01, 0x60, 0x20, 0x52, 0x60, 0x40, 0x60, 0x00, 0x20, 0x67];
        code.extend(c.to_be_bytes());
        code.extend([0x01, 0x60, 0x01, 0x90, 0x55, 0x00]);
        progs.push((format!("sstore(keccak(calldatasize ++ 1) + {c:#x}, 1)"), code));
    }
    let n = progs.len();
    for (name, code) in progs {
        for perm in [false, true] {
            if let Out::Panic = analyze(&code, perm) {
                witness("C01", "analyze.panic.crafted_offsets", format!("{name}: {code:02x?} permissive={perm}"), "PANIC".into(), "layout or error".into());
            }
        }
    }
    println!("CASES c01_crafted {n}");
}
