//! C01: totality through the public entry point on boundary-constant programs (never a panic).
use crate::{boundary_words, c08::{analyze, Out}, scale, witness, Rng};

fn push32(w: ethnum::U256) -> Vec<u8> { let mut v = vec![0x7f]; v.extend(w.to_be_bytes()); v }

#[test]
fn c01_boundary_constant_programs_do_not_panic() {
    std::panic::set_hook(Box::new(|_| {}));
    let bw = boundary_words();
    // opcodes that consume (a, b) with a on top: arithmetic, shifts, memory, hashing, copies, storage, jumps
    let binops: [u8; 24] = [0x01, 0x02, 0x03, 0x04, 0x05, 0x06, 0x07, 0x0a, 0x0b, 0x10, 0x11, 0x12, 0x13, 0x14, 0x16, 0x17, 0x18, 0x1a, 0x1b, 0x1c, 0x1d, 0x20, 0x52, 0x55];
    let mut cases = 0u64;
    let mut rng = Rng::seeded(1);
    for &op in &binops {
        for _ in 0..3 * scale() {
            let a = bw[rng.below(bw.len() as u64) as usize];
            let b = bw[rng.below(bw.len() as u64) as usize];
            // PUSH b PUSH a OP ; then use the result as a storage key so that later stages see it
            let mut code = push32(b);
            code.extend(push32(a));
            code.push(op);
            if ![0x52u8, 0x55].contains(&op) { code.extend([0x54, 0x50]); }
            code.push(0x00);
            for perm in [false, true] {
                if let Out::Panic = analyze(&code, perm) {
                    witness("C01", "analyze.panic", format!("PUSH32 {b:#x} PUSH32 {a:#x} op {op:#04x} permissive={perm}"), "PANIC".into(), "layout or error".into());
                }
                cases += 1;
            }
        }
    }
    // three-operand copies and hashing with boundary offsets/sizes: CALLDATACOPY CODECOPY RETURNDATACOPY, SHA3 result stored
    for &op in &[0x37u8, 0x39, 0x3e] {
        for _ in 0..3 * scale() {
            let (a, b, c) = (bw[rng.below(bw.len() as u64) as usize], bw[rng.below(bw.len() as u64) as usize], bw[rng.below(bw.len() as u64) as usize]);
            let mut code = push32(c);
            code.extend(push32(b));
            code.extend(push32(a));
            code.push(op);
            code.extend([0x60, 0x00, 0x51, 0x60, 0x00, 0x55, 0x00]);
            if let Out::Panic = analyze(&code, true) { witness("C01", "analyze.panic", format!("copy {op:#04x} ({a:#x},{b:#x},{c:#x})"), "PANIC".into(), "layout or error".into()); }
            cases += 1;
        }
    }
    println!("CASES c01_boundary_programs {cases}");
}

/// crafted patterns that feed truncated 256-bit constants into usize arithmetic of the lifting passes / rules
#[test]
fn c01_crafted_shift_and_offset_patterns() {
    std::panic::set_hook(Box::new(|_| {}));
    let mut progs: Vec<(String, Vec<u8>)> = vec![];
    for shift in [0xffu64, 0x100, 0x101, 0xffff_ffff, u64::MAX - 7, u64::MAX] {
        for mask in [[0x00u8, 0xff], [0xff, 0x00]] {
            // CALLDATASIZE PUSH8 shift SHR PUSH2 mask AND PUSH1 0 SSTORE STOP   ((x >> shift) & mask stored)
            let mut c = vec![0x36, 0x67];
            c.extend(shift.to_be_bytes());
            c.push(0x1c);
            c.push(0x61);
            c.extend(mask);
            c.extend([0x16, 0x60, 0x00, 0x55, 0x00]);
            progs.push((format!("(calldatasize >> {shift:#x}) & {mask:02x?} -> sstore"), c));
            // same with the value loaded from storage first: PUSH1 0 SLOAD PUSH8 shift SHR PUSH2 mask AND PUSH1 1 SSTORE
            let mut c = vec![0x60, 0x00, 0x54, 0x67];
            c.extend(shift.to_be_bytes());
            c.push(0x1c);
            c.push(0x61);
            c.extend(mask);
            c.extend([0x16, 0x60, 0x01, 0x55, 0x00]);
            progs.push((format!("(sload(0) >> {shift:#x}) & {mask:02x?} -> sstore"), c));
        }
    }
    // mapping slot plus a huge constant: sstore(keccak(calldatasize ++ 1) + c, 1)
    for c in [1u64, 0x100, 1 << 55, 1 << 56, 1 << 60, u64::MAX] {
        let mut code = vec![0x36, 0x60, 0x00, 0x52, 0x60, 0x01, 0x60, 0x20, 0x52, 0x60, 0x40, 0x60, 0x00, 0x20, 0x67];
        code.extend(c.to_be_bytes());
        code.extend([0x01, 0x60, 0x01, 0x90, 0x55, 0x00]);
        progs.push((format!("sstore(keccak(calldatasize ++ 1) + {c:#x}, 1)"), code));
    }
    let n = progs.len();
    for (name, code) in progs {
        for perm in [false, true] {
            if let Out::Panic = analyze(&code, perm) {
                witness("C01", "analyze.panic.crafted_offsets", format!("{name}: {code:02x?} permissive={perm}"), "PANIC".into(), "layout or error".into());
            }
        }
    }
    println!("CASES c01_crafted {n}");
}

/// boundary constants as offsets/sizes of every memory-touching opcode (copies, hashing, logs, calls, creates, returns)
#[test]
fn c01_memory_operand_boundaries() {
    std::panic::set_hook(Box::new(|_| {}));
    let bw: Vec<ethnum::U256> = {
        let one = ethnum::U256::ONE;
        vec![ethnum::U256::ZERO, one, ethnum::U256::new(31), ethnum::U256::new(32), ethnum::U256::new(33), ethnum::U256::new(1 << 32), ethnum::U256::new((1u128 << 64) - 32), ethnum::U256::new((1u128 << 64) - 31),
             ethnum::U256::new((1u128 << 64) - 1), ethnum::U256::new(1u128 << 64), one << 255u32, ethnum::U256::MAX]
    };
    // (opcode, number of stack operands)
    let ops: [(u8, usize); 19] = [(0x20, 2), (0x37, 3), (0x39, 3), (0x3c, 4), (0x3e, 3), (0x51, 1), (0x52, 2), (0x53, 2), (0xa0, 2), (0xa1, 3), (0xa2, 4),
                                 (0xf0, 3), (0xf1, 7), (0xf2, 7), (0xf3, 2), (0xf4, 6), (0xf5, 4), (0xfa, 6), (0xfd, 2)];
    let mut rng = Rng::seeded(77);
    let mut cases = 0u64;
    for (op, n) in ops {
        for round in 0..(10 * scale()) {
            let mut code = vec![];
            let mut desc = vec![];
            for k in 0..n {
                // sweep one operand over the whole boundary set while the others are small, then go random
                let w = if round < bw.len() as u64 && k == (round as usize % n) { bw[round as usize] } else if rng.below(3) == 0 { bw[rng.below(bw.len() as u64) as usize] } else { ethnum::U256::new(rng.below(96) as u128) };
                code.extend(push32(w));
                desc.push(format!("{w:#x}"));
            }
            code.push(op);
            code.push(0x00);
            if let Out::Panic = analyze(&code, true) {
                witness("C01", "analyze.panic.memory_operands", format!("op {op:#04x} operands(pushed first..last)={desc:?} code={code:02x?}"), "PANIC".into(), "layout or error".into());
            }
            cases += 1;
        }
    }
    println!("CASES c01_memory_operands {cases}");
}

/// cyclic type evidence (a slot used as element / key / value of itself): must end in a layout or an error,
/// never in unbounded recursion.  `RUNNING` lines let the runner name the input if the process is killed.
#[test]
fn c01_cyclic_type_evidence_terminates() {
    use std::io::Write;
    let progs: Vec<(&str, Vec<u8>)> = vec![
        ("dynamic array of itself: v=sload(0); sstore(keccak(0)+calldataload(0), v)", vec![0x5f, 0x54, 0x5f, 0x5f, 0x52, 0x60, 0x20, 0x5f, 0x20, 0x5f, 0x35, 0x01, 0x55, 0x00]),
        ("mapping whose value is itself: sstore(keccak(calldataload(0) ++ 0), sload(0))", vec![0x5f, 0x54, 0x5f, 0x35, 0x5f, 0x52, 0x5f, 0x60, 0x20, 0x52, 0x60, 0x40, 0x5f, 0x20, 0x55, 0x00]),
        ("mapping keyed by itself: sstore(keccak(sload(0) ++ 0), 1)", vec![0x5f, 0x54, 0x5f, 0x52, 0x5f, 0x60, 0x20, 0x52, 0x60, 0x40, 0x5f, 0x20, 0x60, 0x01, 0x90, 0x55, 0x00]),
        ("array element stored back into the array: a[i] = a[j]", vec![0x5f, 0x5f, 0x52, 0x60, 0x20, 0x5f, 0x20, 0x80, 0x5f, 0x35, 0x01, 0x54, 0x90, 0x60, 0x20, 0x35, 0x01, 0x55, 0x00]),
    ];
    let n = progs.len();
    for (name, code) in progs {
        println!("RUNNING c01_cyclic {name}: {code:02x?}");
        std::io::stdout().flush().ok();
        if let Out::Panic = analyze(&code, true) {
            witness("C01", "analyze.panic.cyclic_types", format!("{name}: {code:02x?}"), "PANIC".into(), "layout or error".into());
        }
    }
    println!("CASES c01_cyclic {n}");
}
