//! C07, differential: stack-safe loop-free constant programs run (a) on a small concrete EVM written here
//! from the EVM definition, forced down BOTH sides of every JUMPI exactly as the symbolic machine forks,
//! and (b) on the real symbolic VM through the public API; every symbolic result is evaluated to a word by an
//! evaluator written here (on the raw tree AND on the `.constant_fold()`ed tree) and compared:
//! final stack (top to bottom), the word at every memory offset the program touches, and per storage key the
//! ORDERED history of that path (initial-read marker + every write), plus the set of keys a path touched.
//! Paths are matched to stored states by the per-offset visit counts.
//!
//! Recorded deviations come out under their own obligation names (and are modelled exactly, so a program that
//! contains one is still compared word for word against "EVM + that deviation"):
//!   alu.signextend.operands_swapped   SIGNEXTEND builds SignExtend{size: x, value: b}
//!   alu.byte.offset_wraps             BYTE(i >= 32, x) with i*8 wrapping to <= 0xf8 yields a byte of x, not 0
//!   alu.addmod.intermediate_wraps     ADDMOD is built as Modulo(Add(a,b), n): the 256-bit Add wraps before the reduction
//!   alu.mulmod.intermediate_wraps     MULMOD is built as Modulo(Multiply(a,b), n): same
//! Any other mismatch: diff.stack, diff.stack.folded, diff.memory_word, diff.storage_history, diff.storage_keys,
//! diff.paths, diff.execution_error, diff.panic.
use std::{
    collections::{BTreeMap, BTreeSet, HashMap, VecDeque},
    panic::{catch_unwind, AssertUnwindSafe},
    sync::Arc,
};

use ethnum::U256;
use storage_layout_extractor::{
    disassembly::InstructionStream,
    vm::{
        state::VMState,
        value::{known::KnownWord, Provenance, RSV, RSVD},
        Config,
        VM,
    },
    watchdog::LazyWatchdog,
};

use crate::{boundary_words, scale, witness, Rng};

// ------------------------------------------------------------------------------------------------
// reference word semantics (from the EVM definition; nothing here calls into the crate)
// ------------------------------------------------------------------------------------------------
fn w(n: u128) -> U256 { U256::new(n) }
fn neg(x: U256) -> U256 { (!x).wrapping_add(U256::ONE) }
fn is_neg(x: U256) -> bool { (x >> 255u32) == U256::ONE }
fn abs(x: U256) -> U256 { if is_neg(x) { neg(x) } else { x } }
fn b2w(x: bool) -> U256 { if x { U256::ONE } else { U256::ZERO } }
fn r_div(a: U256, b: U256) -> U256 { if b == U256::ZERO { U256::ZERO } else { a / b } }
fn r_mod(a: U256, b: U256) -> U256 { if b == U256::ZERO { U256::ZERO } else { a % b } }
fn r_sdiv(a: U256, b: U256) -> U256 {
    if b == U256::ZERO { return U256::ZERO; }
    let q = abs(a) / abs(b); // |MIN| = 2^255; MIN / -1 = 2^255 = MIN as the EVM defines
    if is_neg(a) != is_neg(b) { neg(q) } else { q }
}
fn r_smod(a: U256, b: U256) -> U256 {
    if b == U256::ZERO { return U256::ZERO; }
    let r = abs(a) % abs(b);
    if is_neg(a) { neg(r) } else { r }
}
fn r_exp(a: U256, e: U256) -> U256 {
    let mut r = U256::ONE;
    for i in (0..256u32).rev() {
        r = r.wrapping_mul(r);
        if (e >> i) & U256::ONE == U256::ONE { r = r.wrapping_mul(a); }
    }
    r
}
fn r_shl(s: U256, v: U256) -> U256 { if s >= w(256) { U256::ZERO } else { v << s.as_u32() } }
fn r_shr(s: U256, v: U256) -> U256 { if s >= w(256) { U256::ZERO } else { v >> s.as_u32() } }
fn r_sar(s: U256, v: U256) -> U256 {
    if s >= w(256) { return if is_neg(v) { U256::MAX } else { U256::ZERO }; }
    let k = s.as_u32();
    let l = v >> k;
    if is_neg(v) && k > 0 { l | (U256::MAX << (256 - k)) } else { l }
}
fn r_slt(a: U256, c: U256) -> bool { (a ^ (U256::ONE << 255u32)) < (c ^ (U256::ONE << 255u32)) }
/// (a + b) mod n over the integers (the sum is NOT reduced mod 2^256 first)
fn r_addmod(a: U256, b: U256, n: U256) -> U256 {
    if n == U256::ZERO { return U256::ZERO; }
    let (a, b) = (a % n, b % n);
    let s = a.wrapping_add(b);
    if s < a || s >= n { s.wrapping_sub(n) } else { s }
}
/// (a * b) mod n over the integers, by double-and-add on residues
fn r_mulmod(a: U256, b: U256, n: U256) -> U256 {
    if n == U256::ZERO { return U256::ZERO; }
    let mut r = U256::ZERO;
    for i in (0..256u32).rev() {
        r = r_addmod(r, r, n);
        if (b >> i) & U256::ONE == U256::ONE { r = r_addmod(r, a, n); }
    }
    r
}
/// SIGNEXTEND(b, x): b = index of the byte holding the sign, x = value
fn r_signextend(b: U256, x: U256) -> U256 {
    if b >= w(31) { return x; }
    let bit = 8 * b.as_u32() + 7;
    let mask = (U256::ONE << (bit + 1)) - U256::ONE;
    if (x >> bit) & U256::ONE == U256::ONE { x | !mask } else { x & mask }
}
/// BYTE(i, x): i-th byte counted from the most significant one
fn r_byte(i: U256, x: U256) -> U256 { if i >= w(32) { U256::ZERO } else { (x >> (8 * (31 - i.as_u32()))) & w(0xff) } }

/// which recorded deviations the reference machine imitates
#[derive(Clone, Copy, Debug, Default, PartialEq, Eq)]
struct Model { sx: bool, by: bool, am: bool, mm: bool }
impl Model {
    const SPEC: Model = Model { sx: false, by: false, am: false, mm: false };
    fn from_bits(b: u32) -> Model { Model { sx: b & 1 != 0, by: b & 2 != 0, am: b & 4 != 0, mm: b & 8 != 0 } }
    fn names(&self) -> Vec<&'static str> {
        let mut v = vec![];
        if self.sx { v.push("alu.signextend.operands_swapped"); }
        if self.by { v.push("alu.byte.offset_wraps"); }
        if self.am { v.push("alu.addmod.intermediate_wraps"); }
        if self.mm { v.push("alu.mulmod.intermediate_wraps"); }
        v
    }
    fn signextend(&self, b: U256, x: U256) -> U256 { if self.sx { r_signextend(x, b) } else { r_signextend(b, x) } }
    fn byte(&self, i: U256, x: U256) -> U256 {
        if self.by { r_shr(w(0xf8).wrapping_sub(i.wrapping_mul(w(8))), x) & w(0xff) } else { r_byte(i, x) }
    }
    fn addmod(&self, a: U256, b: U256, n: U256) -> U256 { if self.am { r_mod(a.wrapping_add(b), n) } else { r_addmod(a, b, n) } }
    fn mulmod(&self, a: U256, b: U256, n: U256) -> U256 { if self.mm { r_mod(a.wrapping_mul(b), n) } else { r_mulmod(a, b, n) } }
}

fn binop(m: &Model, op: u8, a: U256, b: U256) -> Option<U256> {
    // a = top of stack, b = the item below it
    Some(match op {
        0x01 => a.wrapping_add(b),
        0x02 => a.wrapping_mul(b),
        0x03 => a.wrapping_sub(b),
        0x04 => r_div(a, b),
        0x05 => r_sdiv(a, b),
        0x06 => r_mod(a, b),
        0x07 => r_smod(a, b),
        0x0a => r_exp(a, b),
        0x0b => m.signextend(a, b),
        0x10 => b2w(a < b),
        0x11 => b2w(a > b),
        0x12 => b2w(r_slt(a, b)),
        0x13 => b2w(r_slt(b, a)),
        0x14 => b2w(a == b),
        0x16 => a & b,
        0x17 => a | b,
        0x18 => a ^ b,
        0x1a => m.byte(a, b),
        0x1b => r_shl(a, b),
        0x1c => r_shr(a, b),
        0x1d => r_sar(a, b),
        _ => return None,
    })
}
const BINOPS: [u8; 21] = [0x01, 0x02, 0x03, 0x04, 0x05, 0x06, 0x07, 0x0a, 0x0b, 0x10, 0x11, 0x12, 0x13, 0x14, 0x16, 0x17, 0x18, 0x1a, 0x1b, 0x1c, 0x1d];
fn opname(op: u8) -> &'static str {
    match op {
        0x01 => "ADD", 0x02 => "MUL", 0x03 => "SUB", 0x04 => "DIV", 0x05 => "SDIV", 0x06 => "MOD", 0x07 => "SMOD", 0x08 => "ADDMOD", 0x09 => "MULMOD",
        0x0a => "EXP", 0x0b => "SIGNEXTEND", 0x10 => "LT", 0x11 => "GT", 0x12 => "SLT", 0x13 => "SGT", 0x14 => "EQ", 0x15 => "ISZERO", 0x16 => "AND",
        0x17 => "OR", 0x18 => "XOR", 0x19 => "NOT", 0x1a => "BYTE", 0x1b => "SHL", 0x1c => "SHR", 0x1d => "SAR", _ => "?",
    }
}

// ------------------------------------------------------------------------------------------------
// the concrete machine: one word-addressed memory, one storage with per-key history, all JUMPI sides
// ------------------------------------------------------------------------------------------------
#[derive(Clone, Debug, PartialEq, Eq)]
enum Gen { Init, Write(U256) }
fn gens(v: &[Gen]) -> String { v.iter().map(|g| match g { Gen::Init => "init".to_string(), Gen::Write(x) => format!("{x:#x}") }).collect::<Vec<_>>().join(",") }

#[derive(Clone)]
struct CState {
    pc:     usize,
    stack:  Vec<U256>,
    mem:    BTreeMap<U256, U256>,
    sto:    BTreeMap<U256, Vec<Gen>>,
    visits: Vec<usize>,
    /// T/F per JUMPI met, in order
    path:   String,
}

struct Decoded { data: Vec<bool> }
fn decode(code: &[u8]) -> Decoded {
    let mut data = vec![false; code.len()];
    let mut i = 0;
    while i < code.len() {
        let op = code[i];
        if (0x60..=0x7f).contains(&op) {
            let n = (op - 0x5f) as usize;
            for j in 1..=n { if i + j < code.len() { data[i + j] = true; } }
            i += n;
        }
        i += 1;
    }
    Decoded { data }
}

/// Err = the program is not one this driver is meant to produce (underflow, bad target, unknown opcode)
fn run_concrete(code: &[u8], m: &Model) -> Result<Vec<CState>, String> {
    let dec = decode(code);
    let mut queue: VecDeque<CState> = VecDeque::new();
    queue.push_back(CState { pc: 0, stack: vec![], mem: BTreeMap::new(), sto: BTreeMap::new(), visits: vec![0; code.len()], path: String::new() });
    let mut done = vec![];
    while let Some(mut st) = queue.pop_front() {
        loop {
            let pc = st.pc;
            st.visits[pc] += 1;
            let mut killed = false;
            if !dec.data[pc] {
                let op = code[pc];
                macro_rules! pop { () => { st.stack.pop().ok_or_else(|| format!("stack underflow at {pc}"))? }; }
                match op {
                    0x00 => killed = true,
                    0x08 | 0x09 => {
                        let (a, b, n) = (pop!(), pop!(), pop!());
                        st.stack.push(if op == 0x08 { m.addmod(a, b, n) } else { m.mulmod(a, b, n) });
                    }
                    0x15 => { let a = pop!(); st.stack.push(b2w(a == U256::ZERO)); }
                    0x19 => { let a = pop!(); st.stack.push(!a); }
                    0x01..=0x1d => {
                        let (a, b) = (pop!(), pop!());
                        st.stack.push(binop(m, op, a, b).ok_or_else(|| format!("opcode {op:#x} at {pc}"))?);
                    }
                    0x38 => st.stack.push(w(code.len() as u128)),
                    0x50 => { pop!(); }
                    0x51 => { let o = pop!(); st.stack.push(*st.mem.entry(o).or_insert(U256::ZERO)); }
                    0x52 => { let (o, v) = (pop!(), pop!()); st.mem.insert(o, v); }
                    0x54 => {
                        let k = pop!();
                        let h = st.sto.entry(k).or_insert_with(|| vec![Gen::Init]);
                        let v = match h.last().unwrap() { Gen::Init => U256::ZERO, Gen::Write(v) => *v };
                        st.stack.push(v);
                    }
                    0x55 => { let (k, v) = (pop!(), pop!()); st.sto.entry(k).or_insert_with(Vec::new).push(Gen::Write(v)); }
                    0x57 => {
                        let (t, _cond) = (pop!(), pop!());
                        if t >= w(code.len() as u128) { return Err(format!("jump target {t:#x} outside the code")); }
                        let t = t.as_usize();
                        if dec.data[t] || code[t] != 0x5b { return Err(format!("jump target {t} is not a JUMPDEST")); }
                        // the symbolic machine forks a copy to the target and keeps falling through itself
                        let mut f = st.clone();
                        f.pc = t;
                        f.path.push('T');
                        queue.push_back(f);
                        st.path.push('F');
                    }
                    0x58 => st.stack.push(w(pc as u128)),
                    0x5b => {}
                    0x5f => st.stack.push(U256::ZERO),
                    0x60..=0x7f => {
                        let n = (op - 0x5f) as usize;
                        let mut v = U256::ZERO;
                        for j in 1..=n { v = (v << 8u32) | w(*code.get(pc + j).unwrap_or(&0) as u128); }
                        st.stack.push(v);
                    }
                    0x80..=0x8f => {
                        let n = (op - 0x7f) as usize;
                        if st.stack.len() < n { return Err(format!("DUP{n} underflow at {pc}")); }
                        let v = st.stack[st.stack.len() - n];
                        st.stack.push(v);
                    }
                    0x90..=0x9f => {
                        let n = (op - 0x8f) as usize;
                        if st.stack.len() < n + 1 { return Err(format!("SWAP{n} underflow at {pc}")); }
                        let l = st.stack.len();
                        st.stack.swap(l - 1, l - 1 - n);
                    }
                    _ => return Err(format!("opcode {op:#x} at {pc}")),
                }
                if st.stack.len() > 1024 { return Err(format!("stack overflow at {pc}")); }
            }
            if killed || pc + 1 >= code.len() { break; }
            st.pc = pc + 1;
        }
        done.push(st);
    }
    Ok(done)
}

// ------------------------------------------------------------------------------------------------
// evaluator of symbolic values
// ------------------------------------------------------------------------------------------------
/// None: the tree contains something that is not a function of constants (a culled `Value`, an environment read ...)
/// evaluation with an environment for the leaves the EVM semantics does not determine (opaque values, call data, ...)
pub(crate) fn ev_env(v: &Arc<RSV>, env: &dyn Fn(&RSVD) -> Option<U256>) -> Option<U256> {
    Some(match v.data() {
        RSVD::KnownData { value } => value.value_le(),
        RSVD::Add { left, right } => ev_env(left, env)?.wrapping_add(ev_env(right, env)?),
        RSVD::Multiply { left, right } => ev_env(left, env)?.wrapping_mul(ev_env(right, env)?),
        RSVD::Subtract { left, right } => ev_env(left, env)?.wrapping_sub(ev_env(right, env)?),
        RSVD::Divide { dividend, divisor } => r_div(ev_env(dividend, env)?, ev_env(divisor, env)?),
        RSVD::SignedDivide { dividend, divisor } => r_sdiv(ev_env(dividend, env)?, ev_env(divisor, env)?),
        RSVD::Modulo { dividend, divisor } => r_mod(ev_env(dividend, env)?, ev_env(divisor, env)?),
        RSVD::SignedModulo { dividend, divisor } => r_smod(ev_env(dividend, env)?, ev_env(divisor, env)?),
        RSVD::Exp { value, exponent } => r_exp(ev_env(value, env)?, ev_env(exponent, env)?),
        RSVD::SignExtend { size, value } => r_signextend(ev_env(size, env)?, ev_env(value, env)?),
        RSVD::LessThan { left, right } => b2w(ev_env(left, env)? < ev_env(right, env)?),
        RSVD::GreaterThan { left, right } => b2w(ev_env(left, env)? > ev_env(right, env)?),
        RSVD::SignedLessThan { left, right } => b2w(r_slt(ev_env(left, env)?, ev_env(right, env)?)),
        RSVD::SignedGreaterThan { left, right } => b2w(r_slt(ev_env(right, env)?, ev_env(left, env)?)),
        RSVD::Equals { left, right } => b2w(ev_env(left, env)? == ev_env(right, env)?),
        RSVD::IsZero { number } => b2w(ev_env(number, env)? == U256::ZERO),
        RSVD::And { left, right } => ev_env(left, env)? & ev_env(right, env)?,
        RSVD::Or { left, right } => ev_env(left, env)? | ev_env(right, env)?,
        RSVD::Xor { left, right } => ev_env(left, env)? ^ ev_env(right, env)?,
        RSVD::Not { value } => !ev_env(value, env)?,
        RSVD::LeftShift { shift, value } => r_shl(ev_env(shift, env)?, ev_env(value, env)?),
        RSVD::RightShift { shift, value } => r_shr(ev_env(shift, env)?, ev_env(value, env)?),
        RSVD::ArithmeticRightShift { shift, value } => r_sar(ev_env(shift, env)?, ev_env(value, env)?),
        // a load evaluates to what was loaded; storage starts out all zero
        RSVD::SLoad { value, .. } => ev_env(value, env)?,
        RSVD::UnwrittenStorageValue { .. } => U256::ZERO,
        other => return env(other),
    })
}
pub(crate) fn ev(v: &Arc<RSV>) -> Option<U256> { ev_env(v, &|_| None) }
/// (value of the raw tree, value of the constant-folded tree)
fn ev2(v: &Arc<RSV>) -> (Option<U256>, Option<U256>) { (ev(v), ev(&v.constant_fold())) }
pub(crate) fn known(x: U256) -> Arc<RSV> { RSV::new_known_value(0, KnownWord::from_le(x), Provenance::Synthetic, None) }

type E2 = (Option<U256>, Option<U256>);
struct SymOut {
    visits: Vec<usize>,
    stack:  Vec<E2>,
    mem:    BTreeMap<U256, E2>,
    /// per program key: None = key untouched on this path, else (is initial-read marker, value)
    sto:    BTreeMap<U256, Option<Vec<(bool, E2)>>>,
    /// evaluated keys the storage lists (None = a key that does not evaluate)
    keys:   BTreeSet<Option<U256>>,
}

fn run_symbolic(code: &[u8], offs: &BTreeSet<U256>, keys: &BTreeSet<U256>) -> Result<Vec<SymOut>, String> {
    let r = catch_unwind(AssertUnwindSafe(|| -> Result<Vec<SymOut>, String> {
        let is = InstructionStream::try_from(code).map_err(|e| format!("disassembly: {e:?}"))?;
        let mut vm = VM::new(is, Config::default().with_permissive_errors(true), LazyWatchdog.in_rc()).map_err(|e| format!("VM::new: {e:?}"))?;
        if let Err(e) = vm.execute() { return Err(format!("execute: {}", format!("{e:?}").chars().take(200).collect::<String>())); }
        let res = vm.consume();
        let mut out = vec![];
        for mut st in res.states {
            out.push(extract(&mut st, code.len(), offs, keys));
        }
        Ok(out)
    }));
    match r { Ok(x) => x, Err(_) => Err("PANIC".into()) }
}

fn extract(st: &mut VMState, len: usize, offs: &BTreeSet<U256>, keys: &BTreeSet<U256>) -> SymOut {
    let visits = (0..len as u32).map(|ip| st.visited_instructions().visit_count(ip).unwrap_or(usize::MAX)).collect();
    let stack = (0..st.stack().depth() as u32).map(|d| ev2(st.stack().read(d).expect("depth is in range"))).collect();
    let mut mem = BTreeMap::new();
    for &o in offs { mem.insert(o, ev2(&st.memory_mut().load(&known(o)))); }
    let mut sto = BTreeMap::new();
    for &k in keys {
        let h = st.storage().generations(&known(k)).map(|g| g.into_iter().map(|v| (matches!(v.data(), RSVD::UnwrittenStorageValue { .. }), ev2(v))).collect());
        sto.insert(k, h);
    }
    let ks = st.storage().keys().into_iter().map(ev).collect();
    SymOut { visits, stack, mem, sto, keys: ks }
}

// ------------------------------------------------------------------------------------------------
// reporting
// ------------------------------------------------------------------------------------------------
#[derive(Default)]
struct Rep { counts: BTreeMap<String, usize>, skipped: usize, compared: usize, known_limit: usize }
impl Rep {
    fn new(known_limit: usize) -> Rep { Rep { known_limit, ..Rep::default() } }
    /// at most 4 lines per fresh obligation and `known_limit` per recorded deviation; the totals go to a NOTE line
    fn w(&mut self, ob: &str, input: String, got: String, want: String) {
        let c = self.counts.entry(ob.to_string()).or_insert(0);
        *c += 1;
        let limit = if ob.starts_with("alu.") { self.known_limit } else { 4 };
        if *c <= limit { witness("C07", ob, input, got, want); }
    }
    fn finish(&self, name: &str, cases: u64) {
        for (ob, n) in &self.counts { println!("NOTE {name} obligation={ob} total_occurrences={n}"); }
        println!("NOTE {name} words compared={} not evaluable (culled)={}", self.compared, self.skipped);
        println!("CASES {name} {cases}");
    }
}
fn hex(code: &[u8]) -> String { code.iter().map(|b| format!("{b:02x}")).collect() }

/// one mismatch: (obligation, where, got, want)
type Mis = (String, String, String, String);

fn cmp_word(ob: &str, at: String, got: E2, want: U256, out: &mut Vec<Mis>, rep: Option<&mut Rep>) {
    if let Some(r) = rep { if got.0.is_none() && got.1.is_none() { r.skipped += 1; } else { r.compared += 1; } }
    if let Some(t) = got.0 { if t != want { out.push((ob.to_string(), at.clone(), format!("{t:#x}"), format!("{want:#x}"))); return; } }
    if let Some(f) = got.1 { if f != want { out.push((format!("{ob}.folded"), at, format!("{f:#x} after constant_fold"), format!("{want:#x}"))); } }
}

/// compare every matched path under one reference model
fn compare(conc: &[CState], sym: &[SymOut], pairing: &[usize], offs: &BTreeSet<U256>, keys: &BTreeSet<U256>, mut rep: Option<&mut Rep>) -> Vec<Mis> {
    let mut out = vec![];
    for (ci, c) in conc.iter().enumerate() {
        let s = &sym[pairing[ci]];
        let p = format!("path[{}]", if c.path.is_empty() { "-" } else { &c.path });
        if s.stack.len() != c.stack.len() {
            out.push(("diff.stack".into(), format!("{p} depth"), format!("{}", s.stack.len()), format!("{}", c.stack.len())));
        } else {
            for (d, got) in s.stack.iter().enumerate() {
                cmp_word("diff.stack", format!("{p} stack[{d} from top]"), *got, c.stack[c.stack.len() - 1 - d], &mut out, rep.as_deref_mut());
            }
        }
        for o in offs {
            cmp_word("diff.memory_word", format!("{p} mem[{o:#x}]"), s.mem[o], c.mem.get(o).copied().unwrap_or(U256::ZERO), &mut out, rep.as_deref_mut());
        }
        for k in keys {
            let want = c.sto.get(k);
            let got = &s.sto[k];
            match (got, want) {
                (None, None) => {}
                (Some(g), Some(wv)) if g.len() == wv.len() => {
                    for (i, ((init, e), wg)) in g.iter().zip(wv.iter()).enumerate() {
                        let at = format!("{p} storage[{k:#x}] generation {i} of {}", gens(wv));
                        match wg {
                            Gen::Init => if !*init { out.push(("diff.storage_history".into(), at, "a written value".into(), "the initial-value marker".into())); },
                            Gen::Write(x) => {
                                if *init { out.push(("diff.storage_history".into(), at, "the initial-value marker".into(), format!("{x:#x}"))); }
                                else { cmp_word("diff.storage_history", at, *e, *x, &mut out, rep.as_deref_mut()); }
                            }
                        }
                    }
                }
                (g, wv) => out.push((
                    "diff.storage_history".into(),
                    format!("{p} storage[{k:#x}]"),
                    g.as_ref().map_or("no history".into(), |g| format!("{} generations [{}]", g.len(), g.iter().map(|(i, e)| if *i { "init".into() } else { format!("{:x?}", e.0) }).collect::<Vec<_>>().join(","))),
                    wv.map_or("no history".into(), |v| format!("{} generations [{}]", v.len(), gens(v))),
                )),
            }
        }
        let want_keys: BTreeSet<Option<U256>> = c.sto.keys().map(|k| Some(*k)).collect();
        if s.keys != want_keys { out.push(("diff.storage_keys".into(), p.clone(), format!("{:x?}", s.keys), format!("{want_keys:x?}"))); }
    }
    out
}

/// run one program both ways and report; returns false when the program could not be used
fn check_program(code: &[u8], offs: &BTreeSet<U256>, keys: &BTreeSet<U256>, rep: &mut Rep) -> bool {
    let conc = match run_concrete(code, &Model::SPEC) {
        Ok(c) => c,
        Err(e) => { println!("NOTE c07_diff generator produced an unusable program ({e}): {}", hex(code)); return false; }
    };
    let sym = match run_symbolic(code, offs, keys) {
        Ok(s) => s,
        Err(e) => {
            let ob = if e == "PANIC" { "diff.panic" } else { "diff.execution_error" };
            rep.w(ob, hex(code), e, "every path runs to its end".into());
            return true;
        }
    };
    // match paths to states by the per-offset visit counts
    let mut used = vec![false; sym.len()];
    let mut pairing = vec![];
    for c in &conc {
        match (0..sym.len()).find(|&i| !used[i] && sym[i].visits == c.visits) {
            Some(i) => { used[i] = true; pairing.push(i); }
            None => {
                rep.w("diff.paths", hex(code), format!("{} states, none visits exactly the offsets of path[{}]", sym.len(), c.path), format!("{} paths", conc.len()));
                return true;
            }
        }
    }
    if sym.len() != conc.len() {
        rep.w("diff.paths", hex(code), format!("{} states", sym.len()), format!("{} paths", conc.len()));
        return true;
    }
    let mis = compare(&conc, &sym, &pairing, offs, keys, Some(rep));
    if mis.is_empty() { return true; }
    // does "EVM + some recorded deviations" explain every word?  smallest set first
    let mut sets: Vec<u32> = (1..16).collect();
    sets.sort_by_key(|b| b.count_ones());
    for b in sets {
        let m = Model::from_bits(b);
        let Ok(c2) = run_concrete(code, &m) else { continue };
        if compare(&c2, &sym, &pairing, offs, keys, None).is_empty() {
            let (_, at, got, want) = &mis[0];
            for name in m.names() { rep.w(name, format!("{at} of code {}", hex(code)), got.clone(), format!("{want} (every word of every path equals the EVM with [{}] imitated)", m.names().join(" "))); }
            return true;
        }
    }
    for (ob, at, got, want) in mis.into_iter().take(3) { rep.w(&ob, format!("{at} of code {}", hex(code)), got, want); }
    true
}

// ------------------------------------------------------------------------------------------------
// program generator
// ------------------------------------------------------------------------------------------------
struct Label { patches: Vec<usize>, depth: usize }
struct Pg {
    code:    Vec<u8>,
    /// lower bound of the stack depth over every path that reaches the current offset
    depth:   usize,
    rng:     Rng,
    words:   Vec<U256>,
    offs:    Vec<U256>,
    keys:    Vec<U256>,
    pending: Vec<Label>,
    jumpis:  usize,
    used_offs: BTreeSet<U256>,
    used_keys: BTreeSet<U256>,
    key_salt: u64,
}
fn be_min(x: U256) -> Vec<u8> { let b = x.to_be_bytes(); let z = b.iter().take_while(|v| **v == 0).count(); b[z..].to_vec() }
impl Pg {
    fn operand(&mut self) -> U256 {
        match self.rng.below(10) {
            0 => self.rng.word(),
            1 => w(self.rng.below(300) as u128),
            2 => self.rng.word() >> (self.rng.below(256) as u32),
            _ => self.words[self.rng.below(self.words.len() as u64) as usize],
        }
    }
    fn push(&mut self, x: U256) {
        let mut b = be_min(x);
        if self.rng.below(8) == 0 { let extra = self.rng.below((33 - b.len()) as u64) as usize; let mut p = vec![0u8; extra]; p.extend(&b); b = p; }
        if b.is_empty() { self.code.push(0x5f); } else { self.code.push(0x5f + b.len() as u8); self.code.extend(&b); }
        self.depth += 1;
    }
    /// push with the minimal encoding (no random padding), so that repeated computations are byte-identical
    fn push_exact(&mut self, x: U256) { let b = be_min(x); if b.is_empty() { self.code.push(0x5f); } else { self.code.push(0x5f + b.len() as u8); self.code.extend(&b); } self.depth += 1; }
    fn op(&mut self, op: u8, pops: usize, pushes: usize) { self.code.push(op); self.depth = self.depth - pops + pushes; }
    /// a storage key / memory offset, sometimes as a constant COMPUTATION (a + b, a ^ b, a << 1) instead of a literal
    fn push_key(&mut self, k: U256) {
        // the SAME computation every time a key is used (the tool keys its symbolic storage by the key EXPRESSION, so
        // only syntactically identical computations are expected to alias; see DESIGN.md D23)
        let variant = (k.as_u64() ^ (k >> 64u32).as_u64() ^ self.key_salt) % 8;
        match variant {
            0 => { let a = U256::new(1 + (self.key_salt % 7) as u128); self.push_exact(k.wrapping_sub(a)); self.push_exact(a); self.op(0x01, 2, 1); }
            1 => { let a = U256::new(0xff00 + (self.key_salt % 200) as u128); self.push_exact(k ^ a); self.push_exact(a); self.op(0x18, 2, 1); }
            2 if k & U256::ONE == U256::ZERO && k >> 255u32 == U256::ZERO => { self.push_exact(k >> 1u32); self.push_exact(U256::ONE); self.op(0x1b, 2, 1); }
            _ => self.push(k),
        }
    }
    fn off(&mut self) -> U256 { let o = self.offs[self.rng.below(self.offs.len() as u64) as usize]; self.used_offs.insert(o); o }
    fn key(&mut self) -> U256 { let k = self.keys[self.rng.below(self.keys.len() as u64) as usize]; self.used_keys.insert(k); k }
    fn place_label(&mut self, stop_first: bool) {
        if self.pending.is_empty() { return; }
        let i = self.rng.below(self.pending.len() as u64) as usize;
        let l = self.pending.remove(i);
        if stop_first { self.code.push(0x00); self.depth = l.depth; } else { self.depth = self.depth.min(l.depth); }
        let t = self.code.len();
        for p in l.patches { self.code[p] = (t >> 8) as u8; self.code[p + 1] = (t & 0xff) as u8; }
        self.code.push(0x5b);
    }
    fn jumpi(&mut self) {
        // condition: a fresh constant or whatever is on top
        if self.depth == 0 || self.rng.below(2) == 0 { let c = self.operand(); self.push(c); }
        let width = [2usize, 2, 2, 3, 4, 32][self.rng.below(6) as usize];
        self.code.push(0x5f + width as u8);
        self.code.extend(vec![0u8; width]);
        let patch = self.code.len() - 2;
        self.depth += 1;
        self.op(0x57, 2, 0);
        self.jumpis += 1;
        if !self.pending.is_empty() && self.rng.below(4) == 0 {
            let i = self.rng.below(self.pending.len() as u64) as usize;
            self.pending[i].patches.push(patch);
            self.pending[i].depth = self.pending[i].depth.min(self.depth);
        } else {
            self.pending.push(Label { patches: vec![patch], depth: self.depth });
        }
    }
    fn step(&mut self, max_jumpi: usize) {
        let d = self.depth;
        let r = self.rng.below(100);
        match r {
            0..=21 => { let x = self.operand(); self.push(x); }
            22..=47 => {
                let op = BINOPS[self.rng.below(BINOPS.len() as u64) as usize];
                // fresh operands half of the time so that the interesting corners are hit on purpose
                let fresh = self.rng.below(2) == 0;
                if fresh || d < 2 { let (y, x) = (self.operand(), self.operand()); self.push(y); self.push(x); }
                self.op(op, 2, 1);
            }
            48..=52 => { if d < 1 { let x = self.operand(); self.push(x); } let op = if self.rng.below(2) == 0 { 0x15 } else { 0x19 }; self.op(op, 1, 1); }
            53..=57 => {
                while self.depth < 3 { let x = self.operand(); self.push(x); }
                if self.rng.below(2) == 0 { let x = self.operand(); self.push(x); self.op(0x90, 0, 0); self.op(0x50, 1, 0); } // replace the top by a fresh word
                let op = if self.rng.below(2) == 0 { 0x08 } else { 0x09 };
                self.op(op, 3, 1);
            }
            58..=66 if d >= 1 => { let n = 1 + self.rng.below(d.min(16) as u64) as u8; self.op(0x7f + n, 0, 1); }
            67..=74 if d >= 2 => { let n = 1 + self.rng.below((d - 1).min(16) as u64) as u8; self.op(0x8f + n, 0, 0); }
            75..=77 if d >= 1 => self.op(0x50, 1, 0),
            78 => self.op(0x58, 0, 1),
            79 => self.op(0x38, 0, 1),
            80..=84 => { if d < 1 || self.rng.below(2) == 0 { let x = self.operand(); self.push(x); } let o = self.off(); self.push(o); self.op(0x52, 2, 0); }
            85..=87 => { let o = self.off(); self.push(o); self.op(0x51, 1, 1); }
            88..=91 => { if d < 1 || self.rng.below(2) == 0 { let x = self.operand(); self.push(x); } let k = self.key(); self.push(k); self.op(0x55, 2, 0); }
            92..=93 => { let k = self.key(); self.push(k); self.op(0x54, 1, 1); }
            94 => { // write back the loaded value, possibly transformed
                let k = self.key();
                self.push(k);
                self.op(0x54, 1, 1);
                if self.rng.below(2) == 0 { let x = self.operand(); self.push(x); let op = [0x01u8, 0x16, 0x17, 0x18][self.rng.below(4) as usize]; self.op(op, 2, 1); }
                self.push(k);
                self.op(0x55, 2, 0);
            }
            95 => { // store, load, overwrite, load
                let k = self.key();
                let (a, b) = (self.operand(), self.operand());
                self.push(a); self.push(k); self.op(0x55, 2, 0);
                self.push(k); self.op(0x54, 1, 1);
                self.push(b); self.push(k); self.op(0x55, 2, 0);
                self.push(k); self.op(0x54, 1, 1);
            }
            96..=99 if self.jumpis < max_jumpi => self.jumpi(),
            _ => { let x = self.operand(); self.push(x); }
        }
        if !self.pending.is_empty() && self.rng.below(7) == 0 { let s = self.rng.below(3) == 0; self.place_label(s); }
    }
}

/// memory offsets: word aligned, pairwise non-overlapping, below 2^64, many of them equal modulo 2^32 / 2^48
fn offset_pool(rng: &mut Rng) -> Vec<U256> {
    let base = 32 * rng.below(6) as u128;
    let deltas: [u128; 9] = [0, 32, 1 << 32, 1 << 33, 3 << 32, 1 << 48, 1 << 63, (1 << 63) + (1 << 32), 0xffff_ffff_0000_0000];
    let mut v: Vec<U256> = vec![];
    for _ in 0..4 { let o = w(base + deltas[rng.below(9) as usize]); if !v.contains(&o) { v.push(o); } }
    v
}
/// storage keys: boundary words and groups that agree in their low 32 / 64 / 128 bits
fn key_pool(rng: &mut Rng, bw: &[U256]) -> Vec<U256> {
    let k = if rng.below(2) == 0 { bw[rng.below(bw.len() as u64) as usize] } else { w(rng.below(4) as u128) };
    let mut v = vec![k];
    for _ in 0..2 {
        let o = match rng.below(6) {
            0 => k.wrapping_add(U256::ONE << 32u32),
            1 => k.wrapping_add(U256::ONE << 64u32),
            2 => k.wrapping_add(U256::ONE << 128u32),
            3 => k.wrapping_add(U256::ONE << 255u32),
            4 => k.wrapping_add(U256::ONE),
            _ => bw[rng.below(bw.len() as u64) as usize],
        };
        if !v.contains(&o) { v.push(o); }
    }
    v
}

fn extra_words() -> Vec<U256> {
    let mut v = boundary_words();
    // BYTE offsets whose multiple of 8 wraps; SIGNEXTEND sizes around 30/31; shift amounts around the byte lanes
    v.extend([U256::ONE << 253u32, (U256::ONE << 253u32) + U256::ONE, (U256::ONE << 253u32) + w(31), (U256::ONE << 254u32) + w(7), w(30), w(33), w(248), w(0x80), w(0x8000), w(0xff00)]);
    v.sort();
    v.dedup();
    v
}

fn gen_program(seed: u64, max_jumpi: usize) -> (Vec<u8>, BTreeSet<U256>, BTreeSet<U256>) {
    let mut rng = Rng::seeded(seed);
    let words = extra_words();
    let offs = offset_pool(&mut rng);
    let keys = key_pool(&mut rng, &words);
    let steps = 4 + rng.below(36);
    let deep = rng.below(5) == 0;
    let mut g = Pg { code: vec![], depth: 0, rng, words, offs, keys, pending: vec![], jumpis: 0, key_salt: seed, used_offs: BTreeSet::new(), used_keys: BTreeSet::new() };
    if deep { for _ in 0..17 { let x = g.operand(); g.push(x); } }
    for _ in 0..steps { g.step(max_jumpi); }
    while !g.pending.is_empty() {
        let s = g.rng.below(3) == 0;
        g.place_label(s);
        for _ in 0..g.rng.below(5) { g.step(0); }
    }
    if g.rng.below(2) == 0 { g.code.push(0x00); }
    (g.code, g.used_offs, g.used_keys)
}

// ------------------------------------------------------------------------------------------------
// tests
// ------------------------------------------------------------------------------------------------
fn random_programs(name: &str, salt: u64, n: u64, max_jumpi: usize) {
    std::panic::set_hook(Box::new(|_| {}));
    let mut rep = Rep::new(1);
    let mut cases = 0;
    for i in 0..n * scale() {
        let (code, offs, keys) = gen_program(salt + i, max_jumpi);
        if check_program(&code, &offs, &keys, &mut rep) { cases += 1; }
    }
    rep.finish(name, cases);
}

#[test]
fn c07_diff_random_programs_a() { random_programs("c07_diff_random_a", 7_000_000, 2500, 3); }
#[test]
fn c07_diff_random_programs_b() { random_programs("c07_diff_random_b", 7_100_000, 2500, 3); }
#[test]
fn c07_diff_random_programs_c() { random_programs("c07_diff_random_c", 7_200_000, 2500, 3); }
#[test]
fn c07_diff_random_straight_line() { random_programs("c07_diff_random_straight", 7_300_000, 2500, 0); }
/// the property's own bound: up to 5 conditional jumps, 32 paths
#[test]
fn c07_diff_random_programs_five_jumpis() { random_programs("c07_diff_random_five_jumpis", 7_400_000, 500, 5); }

fn push_bytes(code: &mut Vec<u8>, x: U256) { let b = be_min(x); if b.is_empty() { code.push(0x5f); } else { code.push(0x5f + b.len() as u8); code.extend(&b); } }

/// every two-operand opcode on (boundary set)^2, every one-operand opcode on the set, ADDMOD/MULMOD on a reduced cube:
/// many `PUSH y PUSH x OP` groups per program, results compared position by position
#[test]
fn c07_diff_alu_boundary_operands() {
    std::panic::set_hook(Box::new(|_| {}));
    let mut rep = Rep::new(4);
    let words = extra_words();
    let mut cases = 0u64;
    // (opcode, operands in push order: the last one ends on top)
    let mut groups: Vec<(u8, Vec<U256>)> = vec![];
    for &op in &BINOPS { for &x in &words { for &y in &words { groups.push((op, vec![y, x])); } } }
    for op in [0x15u8, 0x19] { for &x in &words { groups.push((op, vec![x])); } }
    let small: Vec<U256> = vec![U256::ZERO, U256::ONE, w(2), w(3), w(7), w(256), w(1 << 64), U256::ONE << 128u32, U256::ONE << 255u32, (U256::ONE << 255u32) + U256::ONE, U256::MAX - U256::ONE, U256::MAX];
    for op in [0x08u8, 0x09] { for &a in &small { for &b in &small { for &n in &small { groups.push((op, vec![n, b, a])); } } } }
    let mut rng = Rng::seeded(77);
    for _ in 0..200 * scale() { for op in [0x08u8, 0x09] { groups.push((op, vec![rng.word(), rng.word(), rng.word()])); } }
    for chunk in groups.chunks(60) {
        let mut code = vec![];
        for (op, args) in chunk { for a in args { push_bytes(&mut code, *a); } code.push(*op); }
        let sym = match run_symbolic(&code, &BTreeSet::new(), &BTreeSet::new()) {
            Ok(s) if s.len() == 1 && s[0].stack.len() == chunk.len() => s,
            Ok(s) => { rep.w("diff.paths", hex(&code), format!("{} states, depth {:?}", s.len(), s.first().map(|x| x.stack.len())), format!("1 state, depth {}", chunk.len())); continue; }
            Err(e) => { rep.w(if e == "PANIC" { "diff.panic" } else { "diff.execution_error" }, hex(&code), e, "runs to its end".into()); continue; }
        };
        for (i, (op, args)) in chunk.iter().enumerate() {
            cases += 1;
            let got = sym[0].stack[chunk.len() - 1 - i];
            let top = |k: usize| args[args.len() - 1 - k];
            let eval = |m: &Model| match args.len() {
                1 => if *op == 0x15 { b2w(top(0) == U256::ZERO) } else { !top(0) },
                2 => binop(m, *op, top(0), top(1)).unwrap(),
                _ => if *op == 0x08 { m.addmod(top(0), top(1), top(2)) } else { m.mulmod(top(0), top(1), top(2)) },
            };
            let want = eval(&Model::SPEC);
            let mut mis = vec![];
            let mut one = vec![];
            for a in args { push_bytes(&mut one, *a); }
            one.push(*op);
            let input = format!("{} ({} with top-first operands {})", hex(&one), opname(*op), (0..args.len()).map(|k| format!("{:#x}", top(k))).collect::<Vec<_>>().join(", "));
            cmp_word(&format!("diff.alu.{}", opname(*op).to_lowercase()), input.clone(), got, want, &mut mis, Some(&mut rep));
            if let Some((ob, at, g, wv)) = mis.into_iter().next() {
                let dev = Model::from_bits(15);
                let mut m2 = vec![];
                cmp_word("x", String::new(), got, eval(&dev), &mut m2, None);
                let known = match *op { 0x0b => Some("alu.signextend.operands_swapped"), 0x1a => Some("alu.byte.offset_wraps"), 0x08 => Some("alu.addmod.intermediate_wraps"), 0x09 => Some("alu.mulmod.intermediate_wraps"), _ => None };
                match known {
                    Some(k) if m2.is_empty() => rep.w(k, at, g, wv),
                    _ => rep.w(&ob, at, g, wv),
                }
            }
        }
    }
    rep.finish("c07_diff_alu", cases);
}

/// PUSH0..PUSH32 immediates, DUP1..16 and SWAP1..16 at every legal depth up to 20
#[test]
fn c07_diff_push_dup_swap() {
    std::panic::set_hook(Box::new(|_| {}));
    let mut rep = Rep::new(4);
    let mut cases = 0;
    let mut rng = Rng::seeded(78);
    let none = BTreeSet::new();
    for round in 0..6 * scale() {
        // all push widths with random / ff.. / 00..01 / 80..00 immediates
        let mut code = vec![0x5f];
        for n in 1..=32usize {
            let mut imm: Vec<u8> = (0..n).map(|_| rng.next() as u8).collect();
            match round % 6 { 1 => imm.iter_mut().for_each(|b| *b = 0xff), 2 => { imm.iter_mut().for_each(|b| *b = 0); imm[n - 1] = 1; } 3 => { imm.iter_mut().for_each(|b| *b = 0); imm[0] = 0x80; } 4 => imm[0] = 0, _ => {} }
            code.push(0x5f + n as u8);
            code.extend(imm);
        }
        if check_program(&code, &none, &none, &mut rep) { cases += 1; }
    }
    // (only complete immediates: a PUSH cut short by the end of the code is C10's business, the tool documents it as INVALID bytes)
    for depth in 1..=20usize {
        for n in 1..=16usize {
            for swap in [false, true] {
                if (!swap && n > depth) || (swap && n + 1 > depth) { continue; }
                let mut code = vec![];
                for i in 0..depth { push_bytes(&mut code, w(0x1000 + i as u128)); }
                code.push(if swap { 0x8f + n as u8 } else { 0x7f + n as u8 });
                if check_program(&code, &none, &none, &mut rep) { cases += 1; }
            }
        }
    }
    rep.finish("c07_diff_push_dup_swap", cases);
}

/// directed memory / storage / branch shapes
#[test]
fn c07_diff_memory_storage_branches() {
    std::panic::set_hook(Box::new(|_| {}));
    let mut rep = Rep::new(4);
    let mut cases = 0;
    let bw = boundary_words();
    // memory: two offsets that agree modulo 2^32 (2^33, 2^48, 2^63): store distinct words, reload both, overwrite one
    let deltas: [u128; 8] = [32, 1 << 32, 1 << 33, 3 << 32, 1 << 48, 1 << 63, (1 << 63) + (1 << 32), 0xffff_ffff_0000_0000];
    for base in [0u128, 32, 64, 0x80, 0x1000] {
        for d in deltas {
            let (o1, o2) = (w(base), w(base + d));
            let mut c = vec![];
            for (v, o) in [(w(0x11), o1), (w(0x22), o2)] { push_bytes(&mut c, v); push_bytes(&mut c, o); c.push(0x52); }
            for o in [o1, o2] { push_bytes(&mut c, o); c.push(0x51); }
            push_bytes(&mut c, w(0x33)); push_bytes(&mut c, o2); c.push(0x52);
            for o in [o1, o2] { push_bytes(&mut c, o); c.push(0x51); }
            // a load from a never-written third offset in the same residue class
            let o3 = w(base + d + d % (1 << 63));
            push_bytes(&mut c, o3); c.push(0x51);
            let offs: BTreeSet<U256> = [o1, o2, o3].into_iter().collect();
            if check_program(&c, &offs, &BTreeSet::new(), &mut rep) { cases += 1; }
        }
    }
    // storage: for key pairs that agree in their low bits: load-before-store, store/load/overwrite, write back the loaded value,
    // a write before the branch, one write in each arm, one after the join
    let mut pairs: Vec<(U256, U256)> = vec![];
    for &k in &bw {
        for sh in [32u32, 64, 128, 255] { pairs.push((k, k.wrapping_add(U256::ONE << sh))); }
        pairs.push((k, k.wrapping_add(U256::ONE)));
    }
    for (i, (k1, k2)) in pairs.into_iter().enumerate() {
        let keys: BTreeSet<U256> = [k1, k2].into_iter().collect();
        let sstore = |c: &mut Vec<u8>, v: U256, k: U256| { push_bytes(c, v); push_bytes(c, k); c.push(0x55); };
        let sload = |c: &mut Vec<u8>, k: U256| { push_bytes(c, k); c.push(0x54); };
        let mut c = vec![];
        match i % 4 {
            0 => { sload(&mut c, k1); sstore(&mut c, w(5), k1); sstore(&mut c, w(6), k2); sload(&mut c, k1); sload(&mut c, k2); sstore(&mut c, w(7), k1); sload(&mut c, k1); }
            1 => { // write back what was loaded (never written, then written)
                sload(&mut c, k1); push_bytes(&mut c, k1); c.push(0x55);
                sstore(&mut c, w(9), k2); sload(&mut c, k2); push_bytes(&mut c, k2); c.push(0x55);
                sload(&mut c, k1); sload(&mut c, k2);
            }
            2 => { // masked copy of the slot into itself and into the other key
                sstore(&mut c, U256::MAX, k1);
                sload(&mut c, k1); push_bytes(&mut c, w(0xffff_ffff)); c.push(0x16); push_bytes(&mut c, k1); c.push(0x55);
                sload(&mut c, k1); push_bytes(&mut c, k2); c.push(0x55);
                sload(&mut c, k2);
            }
            _ => {
                // sstore(k1,1); if (c) { sstore(k1,2); sstore(k2,3) } else { sstore(k1,4) } ; sstore(k2,5); sload both
                sstore(&mut c, w(1), k1);
                push_bytes(&mut c, w((i % 3) as u128));
                c.extend([0x61, 0, 0, 0x57]);
                let patch = c.len() - 3;
                sstore(&mut c, w(4), k1);
                c.extend([0x61, 0, 0]);
                let patch2 = c.len() - 2;
                push_bytes(&mut c, U256::ONE);
                c.push(0x90); // cond below target
                c.push(0x57); // second JUMPI straight to the join (both sides explored again)
                c.push(0x00);
                let t = c.len();
                c[patch] = (t >> 8) as u8; c[patch + 1] = t as u8;
                c.push(0x5b);
                sstore(&mut c, w(2), k1); sstore(&mut c, w(3), k2);
                let j = c.len();
                c[patch2] = (j >> 8) as u8; c[patch2 + 1] = j as u8;
                c.push(0x5b);
                sstore(&mut c, w(5), k2);
                sload(&mut c, k1); sload(&mut c, k2);
            }
        }
        if check_program(&c, &BTreeSet::new(), &keys, &mut rep) { cases += 1; }
    }
    rep.finish("c07_diff_memory_storage_branches", cases);
}

/// storage keys given by a constant COMPUTATION.  Through the same value (DUP) a store must be seen by the load;
/// that a computed key is not identified with the same key written as a literal is the recorded deviation D23
/// (the symbolic storage is keyed by the key expression; folding keys breaks pinned contract tests).
#[test]
fn c07_diff_computed_storage_keys() {
    let mut cases = 0;
    let top = |code: &[u8]| -> Option<E2> { run_symbolic(code, &BTreeSet::new(), &BTreeSet::new()).ok().and_then(|v| v.into_iter().next()).and_then(|s| s.stack.first().copied()) };
    for (a, b, opc) in [(2u8, 1u8, 0x01u8), (0xff, 0x01, 0x01), (0x20, 0x01, 0x1b), (0x0f, 0xf0, 0x18), (0x07, 0x03, 0x02)] {
        for v in [7u8, 0xff] {
            // PUSH a PUSH b OP -> k ; DUP1 ; PUSH v ; SWAP1 ; SSTORE ; SLOAD    => stack [v]
            let code = vec![0x60, a, 0x60, b, opc, 0x80, 0x60, v, 0x90, 0x55, 0x54, 0x00];
            match top(&code) {
                Some((raw, folded)) if raw == Some(U256::new(v as u128)) && folded == Some(U256::new(v as u128)) => {}
                got => witness("C07", "diff.storage_computed_key_same_value", format!("k = {a:#x} op{opc:#04x} {b:#x}; sstore(k,{v}); sload(k) with k DUPed: {code:02x?}"), format!("{got:x?}"), format!("{v:#x}")),
            }
            // the same store, then a load through the LITERAL key: EVM gives v; the tool answers with the unwritten placeholder (D23)
            let k = match opc { 0x01 => b.wrapping_add(a) as u128, 0x1b => (a as u128) << b, 0x18 => (a ^ b) as u128, _ => (a as u128) * (b as u128) };
            let mut code = vec![0x60, v, 0x60, a, 0x60, b, opc, 0x55];
            code.extend([0x61, (k >> 8) as u8, k as u8, 0x54, 0x00]);
            match top(&code) {
                Some((raw, _)) if raw == Some(U256::new(v as u128)) => {}
                got => witness("C07", "storage.computed_key_not_aliased_with_literal", format!("sstore({a:#x} op{opc:#04x} {b:#x}, {v}); sload({k:#x}): {code:02x?}"), format!("{got:x?}"), format!("{v:#x}")),
            }
            cases += 2;
        }
    }
    println!("CASES c07_computed_keys {cases}");
}

// ------------------------------------------------------------------------------------------------
// stack effect of every non-transferring opcode against the EVM's arity table (Shanghai)
// ------------------------------------------------------------------------------------------------
/// (byte, items popped, items pushed) of every Shanghai opcode that neither ends the path nor transfers control;
/// DUPn / SWAPn are listed with their NET effect (0/1 and 0/0)
pub fn evm_arity() -> Vec<(u8, usize, usize)> {
    let mut t: Vec<(u8, usize, usize)> = vec![];
    for op in [0x01u8, 0x02, 0x03, 0x04, 0x05, 0x06, 0x07, 0x0a, 0x0b, 0x10, 0x11, 0x12, 0x13, 0x14, 0x16, 0x17, 0x18, 0x1a, 0x1b, 0x1c, 0x1d, 0x20] { t.push((op, 2, 1)); }
    for op in [0x08u8, 0x09] { t.push((op, 3, 1)); }
    for op in [0x15u8, 0x19, 0x31, 0x35, 0x3b, 0x3f, 0x40, 0x51, 0x54] { t.push((op, 1, 1)); }
    for op in [0x30u8, 0x32, 0x33, 0x34, 0x36, 0x38, 0x3a, 0x3d, 0x41, 0x42, 0x43, 0x44, 0x45, 0x46, 0x47, 0x48, 0x58, 0x59, 0x5a, 0x5f] { t.push((op, 0, 1)); }
    for op in [0x37u8, 0x39, 0x3e] { t.push((op, 3, 0)); }
    t.push((0x3c, 4, 0));
    t.push((0x50, 1, 0));
    for op in [0x52u8, 0x53, 0x55] { t.push((op, 2, 0)); }
    t.push((0x5b, 0, 0));
    for op in 0x60u8..=0x7f { t.push((op, 0, 1)); }
    for op in 0x80u8..=0x8f { t.push((op, 0, 1)); }
    for op in 0x90u8..=0x9f { t.push((op, 0, 0)); }
    for n in 0u8..=4 { t.push((0xa0 + n, 2 + n as usize, 0)); }
    t.push((0xf0, 3, 1));
    t.push((0xf1, 7, 1));
    t.push((0xf2, 7, 1));
    t.push((0xf4, 6, 1));
    t.push((0xf5, 4, 1));
    t.push((0xfa, 6, 1));
    t
}

/// 17 distinct constants, the opcode, then the end of the code: the one stored state must have exactly
/// 17 - popped + pushed items, and every item below the popped ones must still be the constant pushed there
#[test]
fn c07_diff_stack_effect_of_every_opcode() {
    let mut cases = 0u64;
    for (op, pops, pushes) in evm_arity() {
        let mut code: Vec<u8> = vec![];
        for i in 0..17u8 { code.extend([0x60, 0x11 + i]); }
        code.push(op);
        if (0x60..=0x7f).contains(&op) { code.extend(std::iter::repeat(0x01).take((op - 0x5f) as usize)); }
        cases += 1;
        let none = BTreeSet::new();
        let outs = match run_symbolic(&code, &none, &none) { Ok(o) => o, Err(e) => {
            if e == "PANIC" { witness("C01", "analyze.panic.opcode_on_constants", hex(&code), "PANIC".into(), "no panic".into()); }
            else { witness("C07", "opcode.stack_effect_is_evm_arity", hex(&code), format!("execution error {e}"), format!("opcode {op:#04x} pops {pops} pushes {pushes}")); }
            continue;
        } };
        if outs.len() != 1 { witness("C07", "opcode.stack_effect_is_evm_arity", hex(&code), format!("{} stored states", outs.len()), "1 (straight-line code)".into()); continue; }
        let st = &outs[0].stack; // top first
        let want = 17 - pops + pushes;
        if st.len() != want { witness("C07", "opcode.stack_effect_is_evm_arity", hex(&code), format!("depth {} after opcode {op:#04x}", st.len()), format!("depth {want} (pops {pops}, pushes {pushes})")); continue; }
        if (0x90..=0x9f).contains(&op) { continue; }
        // untouched items: bottom .. 17 - pops
        for k in 0..(17 - pops) {
            let from_top = st.len() - 1 - k;
            let wantv = w(0x11 + k as u128);
            let (raw, folded) = st[from_top];
            if raw != Some(wantv) || folded != Some(wantv) {
                witness("C07", "opcode.stack_effect_is_evm_arity", hex(&code), format!("item {k} from the bottom = {raw:?}/{folded:?} after opcode {op:#04x}"), format!("{wantv:#x} (not an operand of the opcode)"));
                break;
            }
        }
    }
    println!("CASES c07_diff_stack_effect {cases}");
}

/// CODESIZE is the length of the code being executed, whatever that length is (below, at and above the 24576-byte limit of
/// deployed code: init code may be twice that)
#[test]
fn c07_diff_codesize_is_the_code_length() {
    let mut cases = 0;
    for len in [3usize, 100, 24575, 24576, 24577, 30000, 49152] {
        // CODESIZE ; JUMPDEST * (len - 1)
        let mut code = vec![0x38u8];
        code.extend(std::iter::repeat(0x5b).take(len - 1));
        let none = BTreeSet::new();
        cases += 1;
        match run_symbolic(&code, &none, &none) {
            Ok(outs) => {
                let top = outs.first().and_then(|o| o.stack.first().copied());
                if outs.len() != 1 || top != Some((Some(w(len as u128)), Some(w(len as u128)))) {
                    witness("C07", "opcode.codesize_is_the_code_length", format!("CODESIZE followed by {} JUMPDESTs", len - 1), format!("{} states, top of stack {top:?}", outs.len()), format!("{len}"));
                }
            }
            Err(e) => witness("C07", "opcode.codesize_is_the_code_length", format!("CODESIZE followed by {} JUMPDESTs", len - 1), format!("error {e}"), format!("{len}")),
        }
    }
    println!("CASES c07_diff_codesize {cases}");
}
