//! C05 (no phantom slots): code that executes no storage instruction yields an EMPTY layout however much it hashes,
//! masks and adds like a storage access would; and a program that does touch storage reports ONLY the slots its
//! SLOAD / SSTORE keys name, whatever look-alike hashing goes on next to them for non-storage purposes.
//! Look-alikes (each leaves one word): keccak(n)+calldata, keccak(n)+i, keccak(calldata ++ n), the same + i,
//! nested keccak(keccak(calldata ++ n) ++ m), a 32-byte literal equal to keccak256(n) (+ calldata), masked and
//! shifted forms.  Sinks: RETURN, REVERT, LOG0 data, LOG1 topic, memory only, POP.
//! Real accesses in the mixed programs: sstore(0, ..) and a mapping store sstore(keccak(calldata ++ 1), ..).
use std::collections::BTreeSet;

use ethnum::U256;
use sha3::{Digest, Keccak256};

use crate::{
    c08::{analyze, Out},
    witness,
};

fn keccak(bytes: &[u8]) -> U256 {
    let mut h = Keccak256::new();
    h.update(bytes);
    U256::from_be_bytes(h.finalize().as_slice().try_into().expect("32 bytes"))
}
fn keccak_of_slot(n: u64) -> U256 { keccak(&U256::from(n).to_be_bytes()) }

// --- tiny assembler ---------------------------------------------------------------------------------
fn p1(c: &mut Vec<u8>, v: u8) { c.extend([0x60, v]); }
fn p32(c: &mut Vec<u8>, k: U256) { c.push(0x7f); c.extend(k.to_be_bytes()); }
/// mem[off] := top
fn mstore(c: &mut Vec<u8>, off: u8) { p1(c, off); c.push(0x52); }
fn sha3(c: &mut Vec<u8>, off: u8, len: u8) { p1(c, len); p1(c, off); c.push(0x20); }
fn cdl(c: &mut Vec<u8>, off: u8) { p1(c, off); c.push(0x35); }

/// the look-alike computations; every one leaves exactly one word on the stack; `n`, `m` are the slot-number-like constants
fn lookalikes(n: u8, m: u8) -> Vec<(String, Vec<u8>, Vec<u8>)> {
    let mut v: Vec<(String, Vec<u8>, Vec<u8>)> = vec![];
    let mut c = vec![];
    p1(&mut c, n); mstore(&mut c, 0); sha3(&mut c, 0, 0x20); cdl(&mut c, 0); c.push(0x01);
    v.push((format!("keccak({n}) + calldataload(0)"), c, vec![n]));
    let mut c = vec![];
    p1(&mut c, n); mstore(&mut c, 0); sha3(&mut c, 0, 0x20); p1(&mut c, 3); c.push(0x01);
    v.push((format!("keccak({n}) + 3"), c, vec![n]));
    let mut c = vec![];
    cdl(&mut c, 4); mstore(&mut c, 0); p1(&mut c, n); mstore(&mut c, 0x20); sha3(&mut c, 0, 0x40);
    v.push((format!("keccak(calldataload(4) ++ {n})"), c.clone(), vec![n]));
    let mut d = c.clone();
    p1(&mut d, 2); d.push(0x01);
    v.push((format!("keccak(calldataload(4) ++ {n}) + 2"), d, vec![n]));
    let mut d = c.clone();
    mstore(&mut d, 0); p1(&mut d, m); mstore(&mut d, 0x20); sha3(&mut d, 0, 0x40);
    v.push((format!("keccak(keccak(calldataload(4) ++ {n}) ++ {m})"), d, vec![n, m]));
    let mut d = c.clone();
    d.push(0x73); d.extend([0xffu8; 20]); d.push(0x16);
    v.push((format!("keccak(calldataload(4) ++ {n}) & (2^160-1)"), d, vec![n]));
    let mut d = c;
    p1(&mut d, 0xa0); d.push(0x1c);
    v.push((format!("keccak(calldataload(4) ++ {n}) >> 160"), d, vec![n]));
    let mut c = vec![];
    p32(&mut c, keccak_of_slot(n as u64));
    v.push((format!("literal keccak256({n})"), c.clone(), vec![n]));
    cdl(&mut c, 0); c.push(0x01);
    v.push((format!("literal keccak256({n}) + calldataload(0)"), c, vec![n]));
    // caller-keyed, as balances[msg.sender] would be
    let mut c = vec![0x33];
    mstore(&mut c, 0); p1(&mut c, n); mstore(&mut c, 0x20); sha3(&mut c, 0, 0x40);
    v.push((format!("keccak(caller ++ {n})"), c, vec![n]));
    v
}

/// consumers of the word on top of the stack; `ends` = the path stops there
fn sinks() -> Vec<(&'static str, Vec<u8>, bool)> {
    vec![
        ("returned", vec![0x60, 0x00, 0x52, 0x60, 0x20, 0x60, 0x00, 0xf3], true),
        ("reverted with", vec![0x60, 0x00, 0x52, 0x60, 0x20, 0x60, 0x00, 0xfd], true),
        ("LOG0 data", vec![0x60, 0x00, 0x52, 0x60, 0x20, 0x60, 0x00, 0xa0], false),
        ("LOG1 topic", vec![0x60, 0x00, 0x60, 0x00, 0xa1], false),
        ("left in memory", vec![0x60, 0x40, 0x52], false),
        ("popped", vec![0x50], false),
    ]
}

/// `in_value`: slot-number-like constants of a look-alike that is the VALUE operand of an executed SSTORE (recorded finding:
/// the mapping / array lifts also run on the value sub-tree of a storage write); a phantom entry there gets its own obligation name
struct Case { ob: &'static str, what: String, code: Vec<u8>, allowed: BTreeSet<U256>, in_value: BTreeSet<U256> }

fn run_cases(name: &str, cases: Vec<Case>) {
    std::panic::set_hook(Box::new(|_| {}));
    let n = cases.len();
    let workers = 12usize;
    let chunks: Vec<&[Case]> = cases.chunks((n + workers - 1) / workers).collect();
    let results: Vec<Vec<Out>> = std::thread::scope(|s| {
        let hs: Vec<_> = chunks.iter().map(|ch| s.spawn(move || ch.iter().map(|c| analyze(&c.code, true)).collect::<Vec<_>>())).collect();
        hs.into_iter().map(|h| h.join().unwrap_or_default()).collect()
    });
    let mut failed = 0;
    for (ch, rs) in chunks.iter().zip(results) {
        for (c, out) in ch.iter().zip(rs) {
            let hexcode: String = c.code.iter().map(|b| format!("{b:02x}")).collect();
            match out {
                Out::Panic => witness("C01", "analyze.panic", format!("{}: {hexcode}", c.what), "PANIC".into(), "layout or error".into()),
                Out::Err(_) => failed += 1,
                Out::Ok(slots) => {
                    let want = if c.allowed.is_empty() { "an empty layout".to_string() } else { format!("entries only at {:x?}", c.allowed) };
                    for known in [false, true] {
                        let phantom: Vec<String> = slots.iter().filter(|(ix, _)| !c.allowed.contains(ix) && c.in_value.contains(ix) == known).map(|(ix, off)| format!("{ix:#x}@{off}")).collect();
                        if phantom.is_empty() { continue; }
                        let ob = if known { "slots.only_accessed_slots.hash_in_stored_value" } else { c.ob };
                        witness("C05", ob, format!("{}: {hexcode}", c.what), format!("entries at [{}]", phantom.join(", ")), want.clone());
                    }
                }
            }
        }
    }
    if failed > 0 { println!("NOTE {name}: {failed} of {n} analyses returned an error"); }
    println!("CASES {name} {n}");
}

#[test]
fn c05_storage_free_lookalike_hashing_yields_empty_layout() {
    let mut cases = vec![];
    for (n, m) in [(5u8, 7u8), (0, 1), (1, 0)] {
        let ls = lookalikes(n, m);
        for (lname, lcode, lconsts) in &ls {
            for (sname, scode, _) in sinks() {
                if n != 5 && sname != "LOG0 data" { continue; }
                let mut c = lcode.clone();
                c.extend(&scode);
                c.push(0x00);
                cases.push(Case { ob: "slots.storage_free_is_empty", what: format!("{lname} {sname}"), code: c, allowed: BTreeSet::new(), in_value: BTreeSet::new() });
            }
        }
        // all of them in one program, each logged, the last returned; and behind a branch on calldatasize
        let mut c = vec![];
        for (_, lcode, _) in &ls { c.extend(lcode); c.extend([0x60, 0x00, 0x52, 0x60, 0x20, 0x60, 0x00, 0xa0]); }
        c.push(0x00);
        cases.push(Case { ob: "slots.storage_free_is_empty", what: format!("all look-alikes over ({n},{m}) logged in sequence"), code: c.clone(), allowed: BTreeSet::new(), in_value: BTreeSet::new() });
        let mut b = vec![0x36, 0x61, 0x00, 0x00, 0x57, 0x00, 0x5b];
        b[3] = 6;
        b.extend(c);
        cases.push(Case { ob: "slots.storage_free_is_empty", what: format!("if calldatasize {{ all look-alikes over ({n},{m}) logged }}"), code: b, allowed: BTreeSet::new(), in_value: BTreeSet::new() });
    }
    run_cases("c05_storage_free", cases);
}

#[test]
fn c05_mixed_programs_report_only_accessed_slots() {
    let mut cases = vec![];
    // the real accesses: (description, code leaving nothing, slots it names)
    let mut real: Vec<(String, Vec<u8>, BTreeSet<U256>)> = vec![];
    real.push(("sstore(0, calldataload(0x24))".into(), vec![0x60, 0x24, 0x35, 0x60, 0x00, 0x55], [U256::ZERO].into_iter().collect()));
    let mut c = vec![0x60, 0x24, 0x35];
    cdl(&mut c, 4); mstore(&mut c, 0); p1(&mut c, 1); mstore(&mut c, 0x20); sha3(&mut c, 0, 0x40);
    c.push(0x55);
    real.push(("sstore(keccak(calldataload(4) ++ 1), calldataload(0x24))".into(), c, [U256::ONE].into_iter().collect()));
    real.push(("sload(0) popped".into(), vec![0x60, 0x00, 0x54, 0x50], [U256::ZERO].into_iter().collect()));
    let ls = lookalikes(5, 7);
    for (rname, rcode, allowed) in &real {
        for (lname, lcode, lconsts) in &ls {
            for (sname, scode, ends) in sinks() {
                if !matches!(sname, "returned" | "LOG0 data") { continue; }
                // look-alike first (when its sink lets the path go on), then the access
                if !ends {
                    let mut c = lcode.clone();
                    c.extend(&scode);
                    c.extend(rcode);
                    c.push(0x00);
                    cases.push(Case { ob: "slots.only_accessed_slots", what: format!("{lname} {sname}; then {rname}"), code: c, allowed: allowed.clone(), in_value: BTreeSet::new() });
                }
                // the access first, then the look-alike
                let mut c = rcode.clone();
                c.extend(lcode);
                c.extend(&scode);
                c.push(0x00);
                cases.push(Case { ob: "slots.only_accessed_slots", what: format!("{rname}; then {lname} {sname}"), code: c, allowed: allowed.clone(), in_value: BTreeSet::new() });
            }
        }
    }
    // the look-alike is the VALUE written to slot 0 (it sits below a storage write, but not in its key)
    for (lname, lcode, lconsts) in &ls {
        let mut c = lcode.clone();
        c.extend([0x60, 0x00, 0x55, 0x00]);
        let in_value = lconsts.iter().map(|x| U256::from(*x)).collect();
        cases.push(Case { ob: "slots.only_accessed_slots", what: format!("sstore(0, {lname})"), code: c, allowed: [U256::ZERO].into_iter().collect(), in_value });
    }
    run_cases("c05_mixed", cases);
}

/// the key of an SSTORE is pushed BEFORE the operands of some other opcode: `PUSH1 0x2a PUSH1 5 <operands> <op> <POP its result> SSTORE`.
/// Whatever the opcode, the only storage access is sstore(5, 0x2a): the layout may name slot 5 only (for every opcode of the
/// arity table of c07_diff, so an opcode that pops or pushes the wrong number of words shows up as a phantom slot).
#[test]
fn c05_slot_key_survives_every_opcode() {
    let mut cases = vec![];
    for (op, pops, pushes) in crate::c07_diff::evm_arity() {
        if (0x80..=0x9f).contains(&op) { continue; }
        let mut c = vec![];
        p1(&mut c, 0x2a);
        p1(&mut c, 5);
        for i in 0..pops { p1(&mut c, 0x41 + i as u8); }
        c.push(op);
        if (0x60..=0x7f).contains(&op) { c.extend(std::iter::repeat(0x41).take((op - 0x5f) as usize)); }
        for _ in 0..pushes { c.push(0x50); }
        c.extend([0x55, 0x00]);
        // SLOAD / SSTORE as the opcode in between name their own key (the topmost operand)
        let mut allowed = BTreeSet::from([U256::from(5u8)]);
        if op == 0x54 || op == 0x55 { allowed.insert(U256::from(0x40u8 + pops as u8)); }
        cases.push(Case { ob: "slots.only_accessed_slots", what: format!("sstore(5, 0x2a) with opcode {op:#04x} (pops {pops}, pushes {pushes}) between the key and the store"), code: c, allowed, in_value: BTreeSet::new() });
    }
    run_cases("c05_key_survives_opcode", cases);
}

/// storage keys hashed over memory that MIXES constant words (string-looking ones too) with non-constant words: the layout may
/// name only constants that occur in the key expression — never the hash of a part of the hashed data
#[test]
fn c05_keys_hashed_over_mixed_memory() {
    let ascii = |s: &str| { let mut b = [0u8; 32]; b[..s.len()].copy_from_slice(s.as_bytes()); U256::from_be_bytes(b) };
    let consts = [U256::from(0x20u8), U256::from(5u8), U256::from(1u8), ascii("hello"), ascii("AAAAAAAAAAAAAAAAAAAAAAAAAAAAAAAA"), ascii("eip1967.proxy.admin"), U256::ONE << 255u32];
    let nonconst: [(&str, Vec<u8>); 3] = [("caller", vec![0x33]), ("calldataload(0)", vec![0x60, 0x00, 0x35]), ("timestamp", vec![0x42])];
    let mut cases = vec![];
    let mut shapes: Vec<Vec<Option<U256>>> = vec![];
    for c in consts { shapes.push(vec![None, Some(c)]); shapes.push(vec![Some(c), None]); }
    for a in &consts[..5] { for b in &consts[..5] { shapes.push(vec![Some(*a), Some(*b), None]); shapes.push(vec![None, Some(*a), Some(*b)]); shapes.push(vec![Some(*a), None, Some(*b)]); } }
    for (i, shape) in shapes.iter().enumerate() {
        let (nname, ncode) = &nonconst[i % 3];
        let mut c = vec![];
        for (j, w) in shape.iter().enumerate() {
            match w { Some(k) => p32(&mut c, *k), None => c.extend(ncode) }
            mstore(&mut c, (32 * j) as u8);
        }
        sha3(&mut c, 0, (32 * shape.len()) as u8);
        let what: Vec<String> = shape.iter().map(|w| w.map_or(nname.to_string(), |k| format!("{k:#x}"))).collect();
        let allowed: BTreeSet<U256> = shape.iter().flatten().copied().collect();
        let mut store = c.clone(); store.insert(0, 0x33); store.extend([0x55, 0x00]);
        cases.push(Case { ob: "slots.only_accessed_slots.hash_of_partial_data", what: format!("sstore(keccak({}), caller)", what.join(" ++ ")), code: store, allowed: allowed.clone(), in_value: BTreeSet::new() });
        let mut load = c.clone(); load.extend([0x54, 0x50, 0x00]);
        cases.push(Case { ob: "slots.only_accessed_slots.hash_of_partial_data", what: format!("sload(keccak({}))", what.join(" ++ ")), code: load, allowed, in_value: BTreeSet::new() });
    }
    run_cases("c05_mixed_memory_keys", cases);
}

/// a constant in memory that the program OVERWRITES before hashing (whole, or exactly its non-zero bytes, by a copy of
/// 1..33 bytes, an MSTORE or MSTORE8) is no longer part of the hashed data: a key hashed over that memory must not turn
/// the stale constant into a slot
#[test]
fn c05_overwritten_constants_are_not_slots() {
    let mut cases = vec![];
    for nbytes in [1usize, 2, 4, 8, 20, 31] {
        // left-aligned constant with `nbytes` non-zero leading bytes
        let mut k = [0u8; 32];
        for (i, b) in k.iter_mut().take(nbytes).enumerate() { *b = 0xa9u8.wrapping_add(7 * i as u8) | 1; }
        let kw = U256::from_be_bytes(k);
        for (oname, over) in [
            ("calldatacopy of its non-zero bytes", vec![0x60, nbytes as u8, 0x60, 0x00, 0x60, 0x20, 0x37]),
            ("calldatacopy of a word and a byte ending on it", vec![0x60, (32 + nbytes) as u8, 0x60, 0x04, 0x60, 0x00, 0x37]),
            ("calldatacopy of the whole word", vec![0x60, 0x20, 0x60, 0x00, 0x60, 0x20, 0x37]),
            ("codecopy of its non-zero bytes", vec![0x60, nbytes as u8, 0x60, 0x00, 0x60, 0x20, 0x39]),
            ("returndatacopy of its non-zero bytes", vec![0x60, nbytes as u8, 0x60, 0x00, 0x60, 0x20, 0x3e]),
            ("mstore of caller over it", vec![0x33, 0x60, 0x20, 0x52]),
        ] {
            let mut c = vec![];
            p32(&mut c, kw); mstore(&mut c, 0x20);
            c.extend(&over);
            c.push(0x33); mstore(&mut c, 0);
            sha3(&mut c, 0, 0x40);
            let mut load = c.clone(); load.extend([0x54, 0x50, 0x00]);
            cases.push(Case { ob: "slots.only_accessed_slots.stale_memory_constant", what: format!("mem[0x20] = {kw:#x}; {oname}; sload(keccak(mem[0..0x40]))"), code: load, allowed: BTreeSet::new(), in_value: BTreeSet::new() });
            let mut store = vec![0x60, 0x01]; store.extend(&c); store.extend([0x55, 0x00]);
            cases.push(Case { ob: "slots.only_accessed_slots.stale_memory_constant", what: format!("mem[0x20] = {kw:#x}; {oname}; sstore(keccak(mem[0..0x40]), 1)"), code: store, allowed: BTreeSet::new(), in_value: BTreeSet::new() });
        }
    }
    run_cases("c05_overwritten_constants", cases);
}

/// constants that only LOOK like the hashes the tool recognises (byte-swapped keccak256(n), keccak(n) ± k) used in a key with
/// a non-constant part: the layout may name that constant, never the small slot number n it resembles
#[test]
fn c05_constants_resembling_recognised_hashes_name_no_small_slot() {
    let mut cases = vec![];
    for n in [0u64, 1, 5, 77] {
        let h = keccak_of_slot(n);
        let mut near: Vec<(String, U256)> = vec![(format!("byte-swapped keccak({n})"), U256::from_le_bytes(h.to_be_bytes())), (format!("keccak(keccak({n}))"), keccak(&h.to_be_bytes()))];
        for k in [1u64, 7, 31, 40] { near.push((format!("keccak({n}) + {k} as a literal"), h.wrapping_add(U256::from(k)))); }
        for (what, k) in near {
            // sstore(K + calldataload(0), caller)   and   sload(K) dropped
            let mut c = vec![0x33]; p32(&mut c, k); cdl(&mut c, 0); c.extend([0x01, 0x55, 0x00]);
            cases.push(Case { ob: "slots.only_accessed_slots.resembles_a_recognised_hash", what: format!("sstore({what} + calldataload(0), caller)"), code: c, allowed: [k].into_iter().collect(), in_value: BTreeSet::new() });
            let mut c = vec![]; p32(&mut c, k); c.extend([0x54, 0x50, 0x00]);
            cases.push(Case { ob: "slots.only_accessed_slots.resembles_a_recognised_hash", what: format!("sload({what})"), code: c, allowed: [k].into_iter().collect(), in_value: BTreeSet::new() });
        }
    }
    run_cases("c05_near_hashes", cases);
}

/// the same packed slots seen from C05: the layout names the literal keys that were accessed and nothing else (a key of
/// 2^64 + 5 is not slot 5); and mapping slots hashed in an UNALIGNED scratch area (0x04 / 0x0c) next to stale constants in
/// the aligned words name only the slot constant that was hashed
#[test]
fn c05_packed_slots_and_unaligned_scratch_name_only_accessed_slots() {
    let one = U256::ONE;
    let mut cases = vec![];
    for k in [U256::from(3u8), (one << 64u32) + U256::from(5u8), (one << 128u32) + U256::from(7u8), (one << 255u32) + U256::from(9u8), U256::MAX, keccak(b"some.namespaced.storage") - one] {
        let mut c = vec![];
        c.extend([0x60, 0xff]); p32(&mut c, k); c.extend([0x54, 0x16, 0x60, 0x00, 0x52]);
        c.extend([0x61, 0xff, 0xff]); p32(&mut c, k); c.extend([0x54, 0x60, 0x08, 0x1c, 0x16, 0x60, 0x20, 0x52, 0x00]);
        cases.push(Case { ob: "slots.only_accessed_slots", what: format!("two fields read out of slot {k:#x}"), code: c, allowed: [k].into_iter().collect(), in_value: BTreeSet::new() });
    }
    for (scratch, stale, slot) in [(0x04u8, 7u8, 9u8), (0x0c, 5, 3), (0x1f, 6, 2), (0x00, 7, 9)] {
        // look-alike in the aligned words: mem[0x00] = caller, mem[0x20] = stale, keccak(0x00, 0x40) dropped
        let mut c = vec![0x33]; mstore(&mut c, 0x00); p1(&mut c, stale); mstore(&mut c, 0x20); sha3(&mut c, 0x00, 0x40); c.push(0x50);
        // the real access: mem[scratch] = calldataload(4), mem[scratch + 0x20] = slot, sload(keccak(scratch, 0x40))
        cdl(&mut c, 4); mstore(&mut c, scratch); p1(&mut c, slot); mstore(&mut c, scratch + 0x20); sha3(&mut c, scratch, 0x40); c.extend([0x54, 0x50, 0x00]);
        cases.push(Case { ob: "slots.only_accessed_slots.stale_memory_constant", what: format!("keccak(caller ++ {stale}) dropped, then sload(keccak(mem[{scratch:#x}..+0x40])) with slot {slot} hashed there"), code: c, allowed: [U256::from(slot)].into_iter().collect(), in_value: BTreeSet::new() });
    }
    run_cases("c05_packed_and_unaligned", cases);
}

/// bytes with no assigned opcode in the analysed chain version (0x5c / 0x5d of later forks included) execute no storage
/// access whatever constants sit on the stack in front of them: storage-free programs built around each of them yield an
/// empty layout, and next to a real sstore(1, ..) only slot 1 is named
#[test]
fn c05_unassigned_bytes_are_not_storage_accesses() {
    let mut assigned: Vec<u8> = crate::c07_diff::evm_arity().into_iter().map(|t| t.0).collect();
    assigned.extend([0x00, 0x56, 0x57, 0xf3, 0xfd, 0xfe, 0xff]);
    let mut cases = vec![];
    for b in 0..=255u8 {
        if assigned.contains(&b) { continue; }
        // PUSH1 1 PUSH1 7 <b> ; then the same again behind a JUMPDEST reached by a fork
        let c = vec![0x60, 0x01, 0x60, 0x07, b, 0x60, 0x01, 0x60, 0x07, b, 0x00];
        cases.push(Case { ob: "slots.storage_free_is_empty", what: format!("PUSH1 1 PUSH1 7 {b:#04x} (twice)"), code: c, allowed: BTreeSet::new(), in_value: BTreeSet::new() });
        let c = vec![0x33, 0x60, 0x01, 0x55, 0x36, 0x60, 0x09, 0x57, 0x00, 0x5b, 0x60, 0x01, 0x60, 0x07, b, 0x00];
        cases.push(Case { ob: "slots.only_accessed_slots", what: format!("sstore(1, caller); on one branch PUSH1 1 PUSH1 7 {b:#04x}"), code: c, allowed: [U256::ONE].into_iter().collect(), in_value: BTreeSet::new() });
    }
    run_cases("c05_unassigned_bytes", cases);
}
