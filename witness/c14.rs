//! C14: after `unify`, every type variable has exactly one equality-free type, equal variables share it,
//! constructed types that meet have their components unified, and the fresh variables `merge` allocates for
//! packed encodings are resolved too.  Random judgement sets over a dozen variables (more in the thorough tier)
//! driven through the REAL `TypeCheckerState` / `unification::unify` / `TypeChecker::type_of` (+ the layout
//! conversion `TypeChecker::unify` performs with `abi_type_for`).
//!
//! `unify` runs in a helper thread under a `FlagWatchdog` polled every class: a run that does not finish within
//! the budget is stopped through the watchdog and reported under `unify.terminates`.
//!
//! This file also hosts the harness (`J`, `T`, `run`) that c15.rs shares.
use std::{
    collections::{BTreeMap, BTreeSet},
    panic::{catch_unwind, AssertUnwindSafe},
    sync::{atomic::{AtomicBool, Ordering}, mpsc, Arc},
    time::{Duration, Instant},
};

use ethnum::U256;
use storage_layout_extractor::{
    data::vector_map::ToUniqueIndex,
    tc::{
        self,
        expression::{Span, WordUse, TE},
        lift::{Lift, LiftingPasses},
        rule::InferenceRules,
        state::type_variable::TypeVariable,
        unification, TypeChecker,
    },
    vm::value::{known::KnownWord, Provenance, RSV, RSVD},
    watchdog::FlagWatchdog,
};

use crate::{scale, witness, Rng};

// ------------------------------------------------------------------------------------------------------------
// the shared harness
// ------------------------------------------------------------------------------------------------------------

/// a type expression over variable INDICES (0..n) — what a judgement set is written in
#[derive(Clone, Debug, PartialEq, Eq)]
pub enum T {
    Any,
    Bytes,
    Word(Option<usize>, WordUse),
    Map(usize, usize),
    Dyn(usize),
    Fix(usize, u64),
    /// (variable, offset, size) spans, is_struct
    Packed(Vec<(usize, usize, usize)>, bool),
}

/// fixed-array lengths: small numbers stand for themselves, 1000+i for a 256-bit boundary length
pub fn fixlen(n: u64) -> U256 {
    let one = U256::ONE;
    match n { 1000 => one << 64u32, 1001 => (one << 64u32) + one, 1002 => one << 128u32, 1003 => one << 255u32, 1004 => U256::MAX, 1005 => (one << 64u32) + U256::new(2), _ => U256::from(n) }
}


/// one typing judgement
#[derive(Clone, Debug, PartialEq, Eq)]
pub enum J {
    Eq(usize, usize),
    Is(usize, T),
}

pub fn show_use(u: &WordUse) -> &'static str {
    match u {
        WordUse::Bytes => "bytesN", WordUse::Numeric => "num", WordUse::UnsignedNumeric => "uint", WordUse::SignedNumeric => "int",
        WordUse::Bool => "bool", WordUse::Address => "address", WordUse::Selector => "selector", WordUse::Function => "function",
    }
}

pub fn show_t(t: &T) -> String {
    match t {
        T::Any => "any".into(),
        T::Bytes => "dynbytes".into(),
        T::Word(w, u) => format!("{}<{}>", show_use(u), w.map_or("?".to_string(), |w| w.to_string())),
        T::Map(k, v) => format!("map<v{k},v{v}>"),
        T::Dyn(e) => format!("dyn<v{e}>"),
        T::Fix(e, n) => format!("fix<v{e};{n}>"),
        T::Packed(s, st) => format!("{}({})", if *st { "struct" } else { "packed" }, s.iter().map(|(v, o, z)| format!("v{v}@[{o},{})", o + z)).collect::<Vec<_>>().join(",")),
    }
}

pub fn show_js(n: usize, js: &[J]) -> String {
    let body: Vec<String> = js.iter().map(|j| match j { J::Eq(a, b) => format!("v{a}~v{b}"), J::Is(v, t) => format!("v{v}:{}", show_t(t)) }).collect();
    format!("{n} vars {{{}}}", body.join("; "))
}

/// what the real code left behind for one type variable
#[derive(Clone, Debug)]
pub struct VarInfo {
    pub id: usize,
    /// `find` of the variable in the result forest
    pub root: usize,
    /// `get_data`: None = the forest has no data for the class
    pub data: Option<Vec<TE>>,
    /// `TypeChecker::type_of`
    pub type_of: Result<TE, String>,
}

#[derive(Clone, Debug)]
pub struct Run {
    /// index -> type variable id
    pub ids: Vec<usize>,
    /// every variable of the state after unification (fresh ones included), by id
    pub info: BTreeMap<usize, VarInfo>,
    /// result of the layout conversion (`TypeChecker::unify`, which re-runs unification and calls `abi_type_for`
    /// on every constant storage slot): Ok(number of layout entries) / Err(text) / None = not requested
    pub layout: Option<Result<usize, String>>,
    pub millis: u128,
}

impl Run {
    pub fn of(&self, index: usize) -> &VarInfo { &self.info[&self.ids[index]] }
    pub fn root_of_id(&self, id: usize) -> Option<usize> { self.info.get(&id).map(|i| i.root) }
}

#[derive(Clone, Debug)]
pub enum Outcome {
    Done(Run),
    /// did not finish within the budget; `stopped` = it reacted to the watchdog afterwards
    Diverged { stopped: bool, phase: &'static str },
    Panicked(String),
}

fn to_te(t: &T, tv: &[TypeVariable]) -> TE {
    match t {
        T::Any => TE::Any,
        T::Bytes => TE::Bytes,
        T::Word(w, u) => TE::word(*w, *u),
        T::Map(k, v) => TE::mapping(tv[*k], tv[*v]),
        T::Dyn(e) => TE::dyn_array(tv[*e]),
        T::Fix(e, n) => TE::FixedArray { element: tv[*e], length: fixlen(*n) },
        T::Packed(s, st) => TE::Packed { types: s.iter().map(|(v, o, z)| Span::new(tv[*v], *o, *z)).collect(), is_struct: *st },
    }
}

fn body(n: usize, js: &[J], with_layout: bool, flag: Arc<AtomicBool>, phase: Arc<AtomicBool>) -> Result<Run, &'static str> {
    let t0 = Instant::now();
    let wd = FlagWatchdog::new(flag).polling_every(1).in_rc();
    // no lifting passes / inference rules are needed (and the default set costs ~300 ms to construct)
    let config = tc::Config { lifting_passes: LiftingPasses::new(Vec::<Box<dyn Lift>>::new()), inference_rules: InferenceRules::new() };
    let mut checker = TypeChecker::new(config, wd.clone());
    let tv: Vec<TypeVariable> = {
        let state = unsafe { checker.state_mut() };
        // every variable is a constant storage slot, so that the layout conversion visits it
        let tv: Vec<TypeVariable> = (0..n)
            .map(|i| {
                let key = RSV::new_known_value(i as u32, KnownWord::from_le(i as u32), Provenance::Synthetic, None);
                state.register(RSV::new_synthetic(i as u32, RSVD::StorageSlot { key }))
            })
            .collect();
        for j in js {
            match j {
                J::Eq(a, b) => state.infer(tv[*a], TE::eq(tv[*b])),
                J::Is(v, t) => state.infer(tv[*v], to_te(t, &tv)),
            }
        }
        if unification::unify(state, &wd).is_err() { return Err("unify"); }
        tv
    };
    let all: Vec<TypeVariable> = checker.state().variables();
    let mut info = BTreeMap::new();
    for v in all {
        let (root, data) = {
            let state = unsafe { checker.state_mut() };
            let forest = state.result();
            (forest.find(&v).index(), forest.get_data(&v).map(|s| s.iter().cloned().collect::<Vec<_>>()))
        };
        let type_of = checker.type_of(v).map_err(|e| format!("{e:?}"));
        info.insert(v.index(), VarInfo { id: v.index(), root, data, type_of });
    }
    let layout = if with_layout {
        phase.store(true, Ordering::Relaxed);
        Some(match checker.unify() {
            Ok(l) => Ok(l.slot_count()),
            Err(e) => {
                let s = format!("{e:?}");
                if s.contains("StoppedByWatchdog") { return Err("layout (second unification)"); }
                Err(s)
            }
        })
    } else {
        None
    };
    Ok(Run { ids: tv.iter().map(|v| v.index()).collect(), info, layout, millis: t0.elapsed().as_millis() })
}

/// build the state, unify, observe — in a helper thread with a wall-clock budget
pub fn run(n: usize, js: &[J], with_layout: bool, budget: Duration) -> Outcome {
    let (tx, rx) = mpsc::channel();
    let flag = Arc::new(AtomicBool::new(false));
    let phase = Arc::new(AtomicBool::new(false));
    let (js2, flag2, phase2) = (js.to_vec(), flag.clone(), phase.clone());
    let _ = std::thread::Builder::new().stack_size(64 << 20).spawn(move || {
        let r = catch_unwind(AssertUnwindSafe(|| body(n, &js2, with_layout, flag2, phase2)));
        let _ = tx.send(match r {
            Ok(Ok(run)) => Outcome::Done(run),
            Ok(Err(phase)) => Outcome::Diverged { stopped: true, phase },
            Err(p) => Outcome::Panicked(p.downcast_ref::<String>().cloned().or_else(|| p.downcast_ref::<&str>().map(|s| s.to_string())).unwrap_or_else(|| "panic".into())),
        });
    });
    match rx.recv_timeout(budget) {
        Ok(o) => o,
        Err(_) => {
            flag.store(true, Ordering::Relaxed);
            let ph = if phase.load(Ordering::Relaxed) { "layout (second unification)" } else { "unify" };
            match rx.recv_timeout(Duration::from_secs(3)) {
                Ok(Outcome::Panicked(p)) => Outcome::Panicked(p),
                Ok(_) => Outcome::Diverged { stopped: true, phase: ph },
                Err(_) => Outcome::Diverged { stopped: false, phase: ph },
            }
        }
    }
}

/// greedy one-at-a-time shrinking of a judgement set while `still_fails` holds (bounded number of re-runs)
pub fn minimise(js: &[J], max_runs: usize, mut still_fails: impl FnMut(&[J]) -> bool) -> Vec<J> {
    let mut cur = js.to_vec();
    let mut runs = 0;
    let mut changed = true;
    while changed && runs < max_runs {
        changed = false;
        let mut i = 0;
        while i < cur.len() && runs < max_runs {
            let mut cand = cur.clone();
            cand.remove(i);
            runs += 1;
            if still_fails(&cand) { cur = cand; changed = true; } else { i += 1; }
        }
    }
    cur
}

/// every type variable id mentioned by an expression (conflict payloads included)
pub fn mentioned(e: &TE, out: &mut Vec<usize>) {
    match e {
        TE::Any | TE::Bytes | TE::Word { .. } => {}
        TE::Equal { id } => out.push(id.index()),
        TE::Mapping { key, value } => { out.push(key.index()); out.push(value.index()); }
        TE::DynamicArray { element } | TE::FixedArray { element, .. } => out.push(element.index()),
        TE::Packed { types, .. } => out.extend(types.iter().map(|s| s.typ.index())),
        TE::Conflict { conflicts, .. } => conflicts.iter().for_each(|c| mentioned(c, out)),
    }
}

pub fn has_equal(e: &TE) -> bool {
    match e {
        TE::Equal { .. } => true,
        TE::Conflict { conflicts, .. } => conflicts.iter().any(|c| has_equal(c)),
        _ => false,
    }
}

// ------------------------------------------------------------------------------------------------------------
// C14 proper
// ------------------------------------------------------------------------------------------------------------

const USES: [WordUse; 8] = [WordUse::Bytes, WordUse::Numeric, WordUse::UnsignedNumeric, WordUse::SignedNumeric, WordUse::Bool, WordUse::Address, WordUse::Selector, WordUse::Function];
const WIDTHS: [Option<usize>; 10] = [None, None, Some(8), Some(32), Some(64), Some(128), Some(160), Some(192), Some(256), Some(7)];

/// union-find over judgement-set indices (the driver's own model of "declared equal, directly or transitively")
pub struct Uf(pub Vec<usize>);
impl Uf {
    pub fn new(n: usize) -> Self { Uf((0..n).collect()) }
    pub fn find(&mut self, x: usize) -> usize { if self.0[x] == x { x } else { let r = self.find(self.0[x]); self.0[x] = r; r } }
    pub fn union(&mut self, a: usize, b: usize) -> bool { let (a, b) = (self.find(a), self.find(b)); if a != b { self.0[a.max(b)] = a.min(b); } a != b }
}

/// a sized word of a usage other than bytesN/num/uint: the only evidence `merge` pushes down into a packed encoding's first span
fn special_sized(t: &T) -> bool { matches!(t, T::Word(Some(_), u) if !matches!(u, WordUse::Bytes | WordUse::Numeric | WordUse::UnsignedNumeric)) }

/// D13 — the shape on which the current tree's `unify` never terminates (see `c14_d13_*` below): a class holds a
/// packed encoding whose first listed span starts at bit 0 and is typed by a variable OF THAT SAME CLASS, together
/// with a word of exactly that span's width whose usage is not bytesN/num/uint.  `merge` (Packed x Word, last arm)
/// then re-emits the word as a judgement on the span's variable — i.e. on the class itself — every round.  The
/// cycle "a packed encoding that contains its own class" can be written down directly (`v:packed(v@[0,8))`) or only
/// arise while merging (`v6:packed(v2@[0,8),..); v6:packed(v2@[0,160),..)` makes v2 a packed encoding of itself).
/// The default generator keeps such sets out.  This is a static over-approximation: there must be a sized word of
/// a "special" usage at all, and the graph "class -> classes of the spans at bit 0 of its (flattened) packed
/// evidence, span -> shorter spans starting at the same bit" — restricted to spans exactly as wide as such a word —
/// must have a cycle.
fn may_hit_d13(n: usize, js: &[J]) -> bool {
    let widths: BTreeSet<usize> = js.iter().filter_map(|j| match j { J::Is(_, t @ T::Word(Some(w), _)) if special_sized(t) => Some(*w), _ => None }).collect();
    if widths.is_empty() { return false; }
    let mut uf = Uf::new(n);
    for j in js { if let J::Eq(a, b) = j { uf.union(*a, *b); } }
    let is: Vec<(usize, &T)> = js.iter().filter_map(|j| if let J::Is(v, t) = j { Some((*v, t)) } else { None }).collect();
    // flattened pool of (variable, absolute offset, size) of the packed evidence of class `c`; false = nested too deep (treated as dangerous)
    fn pool(c: usize, base: usize, depth: usize, path: &mut Vec<usize>, uf: &mut Uf, is: &[(usize, &T)], out: &mut Vec<(usize, usize, usize)>) -> bool {
        if depth > 6 { return false; }
        if path.contains(&c) { return true; } // cyclic nesting is only dangerous through bit-0 spans: the graph below decides
        path.push(c);
        for (v, t) in is {
            if uf.find(*v) != c { continue; }
            if let T::Packed(spans, _) = t {
                for (x, o, z) in spans {
                    out.push((*x, base + o, *z));
                    let cx = uf.find(*x);
                    if !pool(cx, base + o, depth + 1, path, uf, is, out) { return false; }
                }
            }
        }
        path.pop();
        true
    }
    let mut pools: Vec<(usize, Vec<(usize, usize, usize)>)>;
    loop {
        let mut changed = false;
        for (i, (va, ta)) in is.iter().enumerate() {
            for (vb, tb) in is.iter().skip(i + 1) {
                if uf.find(*va) != uf.find(*vb) { continue; }
                match (ta, tb) {
                    (T::Map(k1, v1), T::Map(k2, v2)) => { changed |= uf.union(*k1, *k2); changed |= uf.union(*v1, *v2); }
                    (T::Dyn(e1), T::Dyn(e2)) | (T::Fix(e1, _), T::Fix(e2, _)) => { changed |= uf.union(*e1, *e2); }
                    _ => {}
                }
            }
        }
        pools = Vec::new();
        for c in 0..n {
            if uf.find(c) != c { continue; }
            let mut out = Vec::new();
            if !pool(c, 0, 0, &mut Vec::new(), &mut uf, &is, &mut out) { return true; }
            // identical ranges are equated by the merge
            for i in 0..out.len() { for k in i + 1..out.len() { if out[i].1 == out[k].1 && out[i].2 == out[k].2 { changed |= uf.union(out[i].0, out[k].0); } } }
            if !out.is_empty() { pools.push((c, out)); }
        }
        if !changed { break; }
    }
    let mut edges: BTreeSet<(usize, usize)> = BTreeSet::new();
    for (c, out) in &pools {
        // the word only ever travels to a span that starts at bit 0 of its parent
        // and only if that span is exactly as wide as the word
        for (x, xo, xs) in out {
            if *xo == 0 && widths.contains(xs) { edges.insert((*c, uf.find(*x))); }
            for (y, yo, ys) in out {
                let inside_at_start = yo == xo && ys < xs && widths.contains(ys);
                if inside_at_start { edges.insert((uf.find(*x), uf.find(*y))); }
            }
        }
    }
    // any cycle (self-loops included)?
    let nodes: BTreeSet<usize> = edges.iter().flat_map(|(a, b)| [*a, *b]).collect();
    for s in &nodes {
        let mut seen = BTreeSet::new();
        let mut todo: Vec<usize> = edges.iter().filter(|(a, _)| a == s).map(|(_, b)| *b).collect();
        while let Some(x) = todo.pop() {
            if x == *s { return true; }
            if seen.insert(x) { todo.extend(edges.iter().filter(|(a, _)| *a == x).map(|(_, b)| *b)); }
        }
    }
    false
}

fn gen_t(rng: &mut Rng, n: usize, owner: usize) -> T {
    let v = |rng: &mut Rng| rng.below(n as u64) as usize;
    match rng.below(20) {
        0 => T::Any,
        1 => T::Bytes,
        2..=7 => {
            let u = USES[rng.below(8) as usize];
            // fixed-width usages mostly at their own width
            let w = if u.size().is_some() && rng.below(4) != 0 { u.size() } else { WIDTHS[rng.below(WIDTHS.len() as u64) as usize] };
            T::Word(w, u)
        }
        8..=10 => if rng.below(4) == 0 { T::Map(v(rng), owner) } else { T::Map(v(rng), v(rng)) },
        11 | 12 => T::Dyn(v(rng)),
        13 | 14 => T::Fix(v(rng), 2 + rng.below(2)),
        _ => {
            // packed encodings: gaps, overlaps, unsorted, sometimes the classic bytes-length/flag spans
            let k = 1 + rng.below(4) as usize;
            let mut spans = Vec::new();
            for _ in 0..k {
                let (o, z) = match rng.below(8) {
                    0 => (0, 1), 1 => (1, 7), 2 => (8, 248),
                    3 => (0, 8), 4 => (96, 160), 5 => (0, 160),
                    _ => { let o = 8 * rng.below(31) as usize; let z = 8 * (1 + rng.below(((256 - o) / 8) as u64) as usize); (o, z) }
                };
                spans.push((v(rng), o, z));
            }
            T::Packed(spans, rng.below(5) == 0)
        }
    }
}

fn gen_set(rng: &mut Rng, n: usize) -> Vec<J> {
    // sparse to dense
    let density = if rng.below(3) == 0 { n as u64 } else { 3 * n as u64 };
    let m = 1 + rng.below(density) as usize;
    let mut js = Vec::new();
    for _ in 0..m {
        let v = rng.below(n as u64) as usize;
        if rng.below(5) == 0 {
            js.push(J::Eq(v, rng.below(n as u64) as usize));
        } else {
            js.push(J::Is(v, gen_t(rng, n, v)));
        }
    }
    // the shapes the property names: a mapping whose value is itself + a second mapping judgement on the same variable
    if rng.below(3) == 0 {
        let v = rng.below(n as u64) as usize;
        js.push(J::Is(v, T::Map(rng.below(n as u64) as usize, v)));
        js.push(J::Is(v, T::Map(rng.below(n as u64) as usize, rng.below(n as u64) as usize)));
    }
    // two packed encodings with a gap between them on one variable
    if rng.below(4) == 0 {
        let v = rng.below(n as u64) as usize;
        js.push(J::Is(v, T::Packed(vec![(rng.below(n as u64) as usize, 0, 8)], false)));
        js.push(J::Is(v, T::Packed(vec![(rng.below(n as u64) as usize, 96, 160)], false)));
    }
    js
}

/// all violations of C14 visible in a finished run: (obligation, got, want)
pub fn violations(n: usize, js: &[J], r: &Run) -> Vec<(&'static str, String, String)> {
    let mut out = Vec::new();
    let originals: BTreeSet<usize> = r.ids.iter().copied().collect();
    let name = |id: usize| match r.ids.iter().position(|x| *x == id) { Some(i) => format!("v{i}"), None => format!("fresh#{id}") };

    // one equality-free type per variable (fresh ones included)
    for (id, i) in &r.info {
        let fresh = !originals.contains(id);
        match &i.data {
            None => out.push((if fresh { "unify.fresh_variables_resolved" } else { "unify.one_equality_free_type_per_variable" }, format!("{}: the result forest holds no data for it (type_of: {})", name(*id), match &i.type_of { Ok(t) => format!("{t:?}"), Err(e) if e.contains("UnificationFailure") => "Err(UnificationFailure)".into(), Err(e) => format!("Err({})", &e[..e.len().min(120)]) }), "one resolved type".into())),
            Some(d) if d.len() > 1 => out.push(("unify.one_equality_free_type_per_variable", format!("{}: {} expressions left: {:?}", name(*id), d.len(), d), "exactly one".into())),
            Some(d) => {
                if d.iter().any(has_equal) { out.push(("unify.one_equality_free_type_per_variable", format!("{}: {:?}", name(*id), d), "no Equal".into())); }
                match &i.type_of {
                    Err(e) => out.push(("unify.one_equality_free_type_per_variable", format!("{}: type_of = Err({e})", name(*id)), "Ok(one type)".into())),
                    Ok(t) => {
                        let want = d.first().cloned().unwrap_or(TE::Any);
                        if *t != want { out.push(("unify.one_equality_free_type_per_variable", format!("{}: type_of = {t:?}", name(*id)), format!("the class's only expression {want:?}"))); }
                    }
                }
            }
        }
    }

    // equal variables (directly or transitively) resolve to the same type
    let mut uf = Uf::new(n);
    for j in js { if let J::Eq(a, b) = j { uf.union(*a, *b); } }
    for a in 0..n {
        let b = uf.find(a);
        if a == b { continue; }
        let (ia, ib) = (r.of(a), r.of(b));
        if ia.root != ib.root || format!("{:?}", ia.type_of) != format!("{:?}", ib.type_of) {
            out.push(("unify.equal_variables_same_type", format!("v{a} (class {}) : {:?}  but v{b} (class {}) : {:?}", ia.root, ia.type_of, ib.root, ib.type_of), "same class, same type".into()));
        }
    }

    // two constructed types that met on non-contradictory evidence: components unified.  If a class resolved to a
    // mapping / dynamic array / fixed array, every judgement of that same constructor (same length) made about a
    // member of the class went through `merge` against it, so the components must be in one class.
    for j in js {
        let J::Is(v, t) = j else { continue };
        let i = r.of(*v);
        let Ok(res) = &i.type_of else { continue };
        let pairs: Vec<(usize, usize)> = match (t, res) {
            (T::Map(k, w), TE::Mapping { key, value }) => vec![(r.ids[*k], key.index()), (r.ids[*w], value.index())],
            (T::Dyn(e), TE::DynamicArray { element }) => vec![(r.ids[*e], element.index())],
            (T::Fix(e, len), TE::FixedArray { element, length }) if fixlen(*len) == *length => vec![(r.ids[*e], element.index())],
            _ => vec![],
        };
        for (mine, theirs) in pairs {
            if r.root_of_id(mine) != r.root_of_id(theirs) {
                out.push(("unify.components_unified", format!("v{v} resolved to {res:?} and was also judged {}; component {} is in class {:?}, the resolved component {} in class {:?}", show_t(t), name(mine), r.root_of_id(mine), name(theirs), r.root_of_id(theirs)), "one class".into()));
            }
        }
    }

    // every variable reachable from a resolved type (in particular the fresh span variables of packed encodings) is resolved
    let mut seen: BTreeSet<usize> = BTreeSet::new();
    let mut todo: Vec<(usize, usize)> = r.ids.iter().map(|x| (*x, *x)).collect();
    while let Some((id, from)) = todo.pop() {
        if !seen.insert(id) { continue; }
        match r.info.get(&id) {
            None => out.push(("unify.fresh_variables_resolved", format!("{} (inside the type of {}) is unknown to the state", name(id), name(from)), "a resolved type".into())),
            // (a variable without a resolved type is reported by the first loop: no data => fresh_variables_resolved)
            Some(i) => if let Ok(t) = &i.type_of { let mut m = Vec::new(); mentioned(t, &mut m); todo.extend(m.into_iter().map(|x| (x, id))); },
        }
    }

    // the layout conversion must not meet a class with several expressions or a leftover equality
    if let Some(Err(e)) = &r.layout {
        if e.contains("UnificationFailure") {
            out.push(("unify.fresh_variables_resolved", format!("layout conversion (abi_type_for) failed: {}", &e[..e.len().min(300)]), "every variable inside a resolved type is resolved".into()));
        } else if e.contains("UnificationIncomplete") || e.contains("Equalities cannot be converted") {
            out.push(("unify.one_equality_free_type_per_variable", format!("layout conversion (abi_type_for) failed: {}", &e[..e.len().min(300)]), "every class resolved to one equality-free type".into()));
        }
    }
    out.sort();
    out.dedup_by(|a, b| a.0 == b.0 && a.1 == b.1);
    out
}

const D13: &str = "unify.terminates.d13_cyclic_packed_sized_word";

/// run one judgement set and report: returns true if it diverged
fn run_and_report(n: usize, js: &[J], budget: Duration, reported: &mut BTreeMap<&'static str, u32>, terminates_ob: &'static str) -> bool {
    const PER_OBLIGATION: u32 = 3;
    match run(n, js, true, budget) {
        Outcome::Done(r) => {
            if std::env::var("VX_C14_DEBUG").is_ok() { println!("TIMING n={n} judgements={} vars_after={} ms={}", js.len(), r.info.len(), r.millis); }
            let vs = violations(n, js, &r);
            let mut done: BTreeSet<&'static str> = BTreeSet::new();
            for (ob, _, _) in &vs {
                if !done.insert(ob) { continue; }
                let c = reported.entry(ob).or_insert(0);
                *c += 1;
                if *c > PER_OBLIGATION { continue; }
                // shrink the set while this obligation still fails
                let ob0 = *ob;
                let small = minimise(js, 80, |cand| match run(n, cand, true, Duration::from_secs(2)) {
                    Outcome::Done(r2) => violations(n, cand, &r2).iter().any(|(o, _, _)| *o == ob0),
                    _ => false,
                });
                let (got, want) = match run(n, &small, true, Duration::from_secs(2)) {
                    Outcome::Done(r2) => violations(n, &small, &r2).into_iter().find(|(o, _, _)| *o == ob0).map(|(_, g, w)| (g, w)),
                    _ => None,
                }
                .unwrap_or_else(|| { let f = vs.iter().find(|(o, _, _)| *o == ob0).unwrap(); (f.1.clone(), f.2.clone()) });
                witness("C14", ob0, show_js(n, &small), got, want);
            }
            false
        }
        Outcome::Diverged { stopped, phase } => {
            let c = reported.entry(terminates_ob).or_insert(0);
            *c += 1;
            if *c <= PER_OBLIGATION {
                let small = minimise(js, 20, |cand| matches!(run(n, cand, false, Duration::from_millis(1000)), Outcome::Diverged { .. }));
                // D13 is the only known cause: the divergence disappears once the sized special-usage words are taken out
                let without: Vec<J> = small.iter().filter(|j| !matches!(j, J::Is(_, t) if special_sized(t))).cloned().collect();
                let terminates_ob = if without.len() < small.len() && !matches!(run(n, &without, false, Duration::from_millis(1500)), Outcome::Diverged { .. }) { D13 } else { terminates_ob };
                witness("C14", terminates_ob, show_js(n, &small), format!("{phase} still running after {} ms ({})", budget.as_millis(), if stopped { "stopped through the watchdog" } else { "did not react to the watchdog either" }), "unify returns".into());
            }
            true
        }
        Outcome::Panicked(p) => {
            let c = reported.entry("unify.one_equality_free_type_per_variable").or_insert(0);
            *c += 1;
            if *c <= PER_OBLIGATION {
                let small = minimise(js, 60, |cand| matches!(run(n, cand, true, Duration::from_secs(2)), Outcome::Panicked(_)));
                witness("C14", "unify.one_equality_free_type_per_variable", show_js(n, &small), format!("PANIC: {}", &p[..p.len().min(200)]), "unify / type_of / layout conversion return".into());
            }
            false
        }
    }
}

#[test]
fn c14_random_judgement_sets() {
    std::panic::set_hook(Box::new(|_| {}));
    let mut cases = 0u64;
    let mut skipped = 0u64;
    let mut reported = BTreeMap::new();
    let rounds = 6000 * scale();
    let t0 = Instant::now();
    let mut round = 0u64;
    let mut salt = 0u64;
    let mut diverged = 0;
    // VX_C14_UNFILTERED=1: exploration mode, also runs the sets the D13 filter keeps out
    let unfiltered = std::env::var("VX_C14_UNFILTERED").map_or(false, |v| v == "1");
    while round < rounds {
        salt += 1;
        let mut rng = Rng::seeded(14_000 + salt);
        let n = if scale() > 1 && salt % 4 == 0 { 13 + rng.below(28) as usize } else { 2 + rng.below(11) as usize };
        let js = gen_set(&mut rng, n);
        if !unfiltered && may_hit_d13(n, &js) { skipped += 1; if skipped <= 12 && std::env::var("VX_C14_DEBUG").is_ok() { println!("SKIP {}", show_js(n, &js)); } if skipped > 50 * rounds { break; } continue; }
        round += 1;
        cases += 1;
        if run_and_report(n, &js, Duration::from_secs(20), &mut reported, "unify.terminates") { diverged += 1; }
        // every divergence costs the whole budget: stop early when the tree diverges all the time
        if diverged >= 4 || t0.elapsed() > Duration::from_secs(20 * scale()) { break; }
    }
    println!("NOTE c14: {skipped} generated sets skipped (packed encoding with a span typed by its own class: D13 shape)");
    println!("CASES c14_random_sets {cases}");
}

/// hand-written sets for the shapes the property names
#[test]
fn c14_named_shapes() {
    std::panic::set_hook(Box::new(|_| {}));
    let w = |w: usize, u: WordUse| T::Word(Some(w), u);
    let sets: Vec<(usize, Vec<J>)> = vec![
        // a mapping whose value is itself, and a second mapping judgement on the same variable
        (4, vec![J::Is(0, T::Map(1, 0)), J::Is(0, T::Map(2, 3)), J::Is(1, T::Word(None, WordUse::UnsignedNumeric)), J::Is(2, w(160, WordUse::Address))]),
        (3, vec![J::Is(0, T::Map(1, 0)), J::Is(0, T::Map(2, 0))]),
        (3, vec![J::Is(0, T::Map(0, 0)), J::Is(0, T::Map(1, 2))]),
        (5, vec![J::Is(0, T::Map(1, 2)), J::Is(3, T::Map(4, 3)), J::Eq(0, 3)]),
        // packed(a@[0,8)) and packed(b@[96,256)) on one variable: the gap [8,96) gets a fresh variable
        (3, vec![J::Is(0, T::Packed(vec![(1, 0, 8)], false)), J::Is(0, T::Packed(vec![(2, 96, 160)], false)), J::Is(1, w(8, WordUse::Bool)), J::Is(2, w(160, WordUse::Address))]),
        (3, vec![J::Is(0, T::Packed(vec![(2, 96, 160)], false)), J::Is(0, T::Packed(vec![(1, 0, 8)], true))]),
        // overlapping / unsorted spans
        (4, vec![J::Is(0, T::Packed(vec![(1, 128, 128), (2, 0, 128)], false)), J::Is(0, T::Packed(vec![(3, 64, 128)], false))]),
        (4, vec![J::Is(0, T::Packed(vec![(1, 0, 64), (2, 32, 64)], false)), J::Is(0, T::Packed(vec![(3, 0, 256)], false)), J::Is(3, w(256, WordUse::Bytes))]),
        // nested constructors met through an equality
        (7, vec![J::Is(0, T::Dyn(1)), J::Is(2, T::Dyn(3)), J::Eq(0, 2), J::Is(1, T::Fix(4, 3)), J::Is(3, T::Fix(5, 3)), J::Is(4, T::Word(None, WordUse::Numeric)), J::Is(5, w(64, WordUse::SignedNumeric)), J::Eq(6, 5)]),
        // fixed arrays of one and the same 256-bit length (2^64, 2^255, 2^256-1): the elements must be unified
        (4, vec![J::Is(0, T::Fix(1, 1000)), J::Is(0, T::Fix(2, 1000)), J::Is(1, w(64, WordUse::UnsignedNumeric)), J::Is(3, T::Any)]),
        (4, vec![J::Is(0, T::Fix(1, 1003)), J::Is(3, T::Fix(2, 1003)), J::Eq(0, 3), J::Is(2, w(160, WordUse::Address))]),
        (3, vec![J::Is(0, T::Fix(1, 1004)), J::Is(0, T::Fix(2, 1004))]),
        // two dynamic arrays met on a value that also carries a word a dynamic array absorbs (its length): the elements are unified
        (3, vec![J::Is(0, T::Dyn(1)), J::Is(0, T::Dyn(2)), J::Is(0, T::Word(None, WordUse::Bool)), J::Is(1, w(64, WordUse::UnsignedNumeric))]),
        (4, vec![J::Is(0, T::Dyn(1)), J::Is(3, T::Dyn(2)), J::Eq(0, 3), J::Is(3, T::Word(None, WordUse::Selector)), J::Is(2, w(160, WordUse::Address))]),
        (3, vec![J::Is(0, T::Word(None, WordUse::Function)), J::Is(0, T::Dyn(1)), J::Is(0, T::Dyn(2))]),
        (3, vec![J::Is(0, T::Dyn(1)), J::Is(0, w(256, WordUse::UnsignedNumeric)), J::Is(0, T::Dyn(2)), J::Is(2, T::Bytes)]),
        // ... and of the smallest lengths (0, 1)
        (4, vec![J::Is(0, T::Fix(1, 0)), J::Is(0, T::Fix(2, 0)), J::Is(1, w(64, WordUse::UnsignedNumeric)), J::Is(3, T::Any)]),
        (4, vec![J::Is(0, T::Fix(1, 0)), J::Is(3, T::Fix(2, 0)), J::Eq(0, 3), J::Is(2, T::Dyn(1))]),
        (3, vec![J::Is(0, T::Fix(1, 1)), J::Is(0, T::Fix(2, 1)), J::Is(2, w(160, WordUse::Address))]),
        // towers of nested constructors equated at the top: every level needs its own round of the fixpoint
        (50, { let mut v = vec![J::Eq(0, 25)]; for i in 0..24 { v.push(J::Is(i, T::Dyn(i + 1))); v.push(J::Is(25 + i, T::Dyn(26 + i))); } v.push(J::Is(24, w(64, WordUse::SignedNumeric))); v.push(J::Is(49, T::Word(None, WordUse::Numeric))); v }),
        (50, { let mut v = vec![J::Eq(0, 25)]; for i in 0..24 { v.push(J::Is(i, T::Map(i + 1, i + 1))); v.push(J::Is(25 + i, T::Map(26 + i, 26 + i))); } v.push(J::Is(24, w(160, WordUse::Address))); v }),
        // equalities only, and transitively
        (5, vec![J::Eq(0, 1), J::Eq(1, 2), J::Eq(3, 2), J::Is(3, T::Bytes), J::Is(0, T::Any)]),
    ];
    let mut reported = BTreeMap::new();
    let mut cases = 0u64;
    let mut diverged = 0;
    for (n, js) in &sets {
        for _ in 0..6 {
            cases += 1;
            if run_and_report(*n, js, Duration::from_secs(20), &mut reported, "unify.terminates") { diverged += 1; break; }
        }
        if diverged >= 3 { break; }
    }
    println!("CASES c14_named_shapes {cases}");
}

/// D13 (DESIGN.md §5): the shape the default generator keeps out.  Off unless VX_C14_D13=1, because on the pinned
/// tree every one of these sets makes `unify` loop forever (each costs the full budget).
#[test]
fn c14_d13_cyclic_packed_with_sized_word() {
    std::panic::set_hook(Box::new(|_| {}));
    if std::env::var("VX_C14_D13").map_or(true, |v| v != "1") { println!("CASES c14_d13 0"); return; }
    let sets: Vec<(usize, Vec<J>)> = vec![
        (1, vec![J::Is(0, T::Packed(vec![(0, 0, 160)], false)), J::Is(0, T::Word(Some(160), WordUse::Address))]),
        (2, vec![J::Is(0, T::Packed(vec![(1, 0, 160)], false)), J::Is(1, T::Word(Some(160), WordUse::Address)), J::Eq(0, 1)]),
        (1, vec![J::Is(0, T::Packed(vec![(0, 0, 8)], false)), J::Is(0, T::Word(Some(8), WordUse::Bool))]),
        // the cycle only arises while merging: v0 is typed at [0,8) and at [0,160) of one slot, so it becomes a packed encoding of itself
        (2, vec![J::Is(0, T::Word(Some(8), WordUse::Bool)), J::Is(1, T::Packed(vec![(0, 0, 8)], false)), J::Is(1, T::Packed(vec![(0, 0, 160)], false))]),
    ];
    let mut reported = BTreeMap::new();
    let mut cases = 0;
    for (n, js) in &sets { run_and_report(*n, js, Duration::from_secs(5), &mut reported, "unify.terminates"); cases += 1; }
    println!("CASES c14_d13 {cases}");
}

/// `TypeChecker::type_of` on hand-built result forests: exactly one expression => that expression, none => Any,
/// several => Err(UnificationIncomplete), no data at all => Err(UnificationFailure).  (After the real `unify` no
/// class ever holds several expressions, so this half of C14 is only observable on a forest set by hand.)
#[test]
fn c14_type_of_demands_exactly_one_expression() {
    use std::collections::HashSet;
    use storage_layout_extractor::{tc::unification::UnificationForest, watchdog::LazyWatchdog};
    std::panic::set_hook(Box::new(|_| {}));
    let pool: Vec<TE> = vec![TE::address(), TE::bool(), TE::Bytes, TE::Any, TE::unsigned_word(Some(64)), TE::signed_word(None), TE::conflict(TE::Bytes, TE::bool(), "seed")];
    let mut cases = 0u64;
    let mut shown = 0;
    for round in 0..200u64 {
        let mut rng = Rng::seeded(14_900 + round);
        let r = catch_unwind(AssertUnwindSafe(|| {
            let config = tc::Config { lifting_passes: LiftingPasses::new(Vec::<Box<dyn Lift>>::new()), inference_rules: InferenceRules::new() };
            let mut checker = TypeChecker::new(config, LazyWatchdog.in_rc());
            let state = unsafe { checker.state_mut() };
            let n = 2 + rng.below(5) as usize;
            let tv: Vec<TypeVariable> = (0..n).map(|i| state.register(RSV::new_value(i as u32, Provenance::Synthetic))).collect();
            let mut forest = UnificationForest::new();
            let mut uf = Uf::new(n);
            // None = never given data
            let mut model: Vec<Option<Vec<TE>>> = vec![None; n];
            let mut log = Vec::new();
            for v in &tv { forest.insert(*v); }
            for _ in 0..rng.below(2 * n as u64 + 1) {
                let (a, b) = (rng.below(n as u64) as usize, rng.below(n as u64) as usize);
                if rng.below(3) == 0 {
                    log.push(format!("union(v{a},v{b})"));
                    forest.union(&tv[a], &tv[b]);
                    let (ra, rb) = (uf.find(a), uf.find(b));
                    if ra != rb {
                        uf.union(a, b);
                        let keep = uf.find(a);
                        let mut m: Vec<TE> = model[ra].take().unwrap_or_default();
                        for e in model[rb].take().unwrap_or_default() { if !m.contains(&e) { m.push(e); } }
                        model[keep] = Some(m);
                    }
                } else {
                    let k = rng.below(3);
                    let es: Vec<TE> = (0..k).map(|_| pool[rng.below(pool.len() as u64) as usize].clone()).collect();
                    log.push(format!("add_data(v{a},{es:?})"));
                    forest.add_data(&tv[a], es.iter().cloned().collect::<HashSet<_>>());
                    let ra = uf.find(a);
                    let mut m: Vec<TE> = model[ra].take().unwrap_or_default();
                    for e in es { if !m.contains(&e) { m.push(e); } }
                    model[ra] = Some(m);
                }
            }
            state.set_result(forest);
            let mut bad = Vec::new();
            for v in 0..n {
                let got = checker.type_of(tv[v]).map_err(|e| format!("{e:?}"));
                let m = model[uf.find(v)].clone();
                let ok = match (&m, &got) {
                    (None, Err(e)) => e.contains("UnificationFailure"),
                    (Some(m), Ok(t)) if m.is_empty() => *t == TE::Any,
                    (Some(m), Ok(t)) if m.len() == 1 => *t == m[0],
                    (Some(m), Err(e)) if m.len() > 1 => e.contains("UnificationIncomplete"),
                    _ => false,
                };
                if !ok {
                    let want = match &m { None => "Err(UnificationFailure)".to_string(), Some(m) if m.is_empty() => "Ok(Any)".into(), Some(m) if m.len() == 1 => format!("Ok({:?})", m[0]), Some(m) => format!("Err(UnificationIncomplete): the class holds {} expressions {m:?}", m.len()) };
                    bad.push((format!("forest built by [{}]; type_of(v{v})", log.join(", ")), format!("{got:?}"), want));
                }
            }
            bad
        }));
        cases += 1;
        match r {
            Ok(bad) => { if let Some((i, g, w)) = bad.into_iter().next() { shown += 1; if shown <= 3 { witness("C14", "type_of.exactly_one_expression", i, g.chars().take(300).collect(), w); } } }
            Err(_) => { shown += 1; if shown <= 3 { witness("C14", "type_of.exactly_one_expression", format!("round {round}"), "PANIC".into(), "Ok or Err".into()); } }
        }
    }
    println!("CASES c14_type_of {cases}");
}

/// two dynamic arrays that meet on a value which ALSO carries a word a dynamic array absorbs (the non-signed word read
/// where its length lives — bool, selector, function, numeric, bytes usages alike): that evidence is not contradictory,
/// so the value resolves to the array and the two element variables are unified
#[test]
fn c14_dynamic_arrays_with_an_absorbed_word_unify_their_elements() {
    std::panic::set_hook(Box::new(|_| {}));
    let mut cases = 0;
    for u in [WordUse::Bool, WordUse::Selector, WordUse::Function, WordUse::Address, WordUse::Numeric, WordUse::UnsignedNumeric, WordUse::Bytes] {
        for width in [None, u.size().or(Some(256))] {
            for order in 0..3 {
                let word = J::Is(0, T::Word(width, u));
                let mut js = vec![J::Is(0, T::Dyn(1)), J::Is(0, T::Dyn(2))];
                js.insert(order, word);
                js.push(J::Is(1, T::Word(Some(64), WordUse::UnsignedNumeric)));
                cases += 1;
                let Outcome::Done(r) = run(3, &js, false, Duration::from_secs(20)) else { continue };
                let t0 = r.of(0);
                let resolved_to_array = matches!(&t0.type_of, Ok(TE::DynamicArray { .. }));
                let same = r.root_of_id(r.ids[1]) == r.root_of_id(r.ids[2]);
                if !resolved_to_array || !same {
                    witness("C14", "unify.components_unified", show_js(3, &js), format!("v0 : {:?}; elements v1, v2 in one class: {same}", t0.type_of), "v0 resolves to a dynamic array whose element class holds v1 and v2".into());
                }
            }
        }
    }
    println!("CASES c14_absorbed_words {cases}");
}

fn slot_var(state: &mut tc::state::TypeCheckerState, i: u32) -> TypeVariable {
    let key = RSV::new_known_value(i, KnownWord::from_le(i), Provenance::Synthetic, None);
    state.register(RSV::new_synthetic(i, RSVD::StorageSlot { key }))
}
fn resolved(state: &mut tc::state::TypeCheckerState, v: TypeVariable) -> (usize, Vec<TE>) {
    let forest = state.result();
    (forest.find(&v).index(), forest.get_data(&v).map(|s| s.iter().cloned().collect()).unwrap_or_default())
}

/// sequences on the typing state itself: a state that was CLONED (the clone unified first, allocating fresh variables from
/// the shared pool), an equality recorded on one of its two variables only, and a second unification after more evidence
/// arrived — unification terminates normally, declared-equal variables share a class, and the result reflects ALL evidence
#[test]
fn c14_state_sequences_clone_one_sided_equality_and_second_unification() {
    use storage_layout_extractor::watchdog::LazyWatchdog;
    std::panic::set_hook(Box::new(|_| {}));
    let wd = LazyWatchdog.in_rc();
    let mut cases = 0;
    // (a) clone, unify the clone (two packed encodings meet: fresh variables), then unify the original
    let r = catch_unwind(AssertUnwindSafe(|| {
        let mut state = tc::state::TypeCheckerState::empty();
        let v: Vec<TypeVariable> = (0..4).map(|i| slot_var(&mut state, i)).collect();
        state.infer(v[0], TE::packed_of(vec![Span::new(v[1], 0, 8)]));
        state.infer(v[0], TE::packed_of(vec![Span::new(v[2], 96, 160)]));
        state.infer(v[3], TE::eq(v[0]));
        let mut clone = state.clone();
        let a = unification::unify(&mut clone, &wd).is_ok();
        let b = unification::unify(&mut state, &wd).is_ok();
        let same = resolved(&mut state, v[3]).0 == resolved(&mut state, v[0]).0;
        (a, b, same)
    }));
    cases += 1;
    match r {
        Err(_) => witness("C14", "unify.terminates", "state cloned, the clone unified (fresh span variables), then the original unified".into(), "PANIC".into(), "both unifications return".into()),
        Ok((a, b, same)) => if !(a && b && same) { witness("C14", "unify.equal_variables_same_type", "state cloned, the clone unified, then the original unified".into(), format!("clone ok={a} original ok={b} v3~v0={same}"), "both Ok, v3 and v0 in one class".into()); }
    }
    // (b) an equality recorded on one side only, on the earlier or on the later variable
    for on_later in [false, true] {
        let r = catch_unwind(AssertUnwindSafe(|| {
            let mut state = tc::state::TypeCheckerState::empty();
            let v: Vec<TypeVariable> = (0..3).map(|i| slot_var(&mut state, i)).collect();
            state.infer(v[0], TE::unsigned_word(Some(64)));
            state.infer(v[2], TE::address());
            let (holder, other) = if on_later { (v[1], v[0]) } else { (v[0], v[1]) };
            state.inferences_mut(holder).insert(TE::eq(other));
            let ok = unification::unify(&mut state, &wd).is_ok();
            (ok, resolved(&mut state, v[0]), resolved(&mut state, v[1]))
        }));
        cases += 1;
        match r {
            Err(_) => witness("C14", "unify.terminates", format!("equality v0 = v1 recorded only on the {} variable", if on_later { "later" } else { "earlier" }), "PANIC".into(), "unification returns".into()),
            Ok((ok, r0, r1)) => if !ok || r0.0 != r1.0 || format!("{:?}", r0.1) != format!("{:?}", r1.1) {
                witness("C14", "unify.equal_variables_same_type", format!("equality v0 = v1 recorded only on the {} variable; v0 : uint64", if on_later { "later" } else { "earlier" }), format!("ok={ok} v0 class {} {:?}, v1 class {} {:?}", r0.0, r0.1, r1.0, r1.1), "one class, one type".into());
            }
        }
    }
    println!("CASES c14_state_sequences {cases}");
}

/// a second unification after more evidence arrived on already registered variables sees that evidence: compatible evidence
/// is joined, a contradiction becomes a conflict (C15), an added equality joins the classes (C14)
#[test]
fn c15_second_unification_sees_new_evidence() {
    use storage_layout_extractor::watchdog::LazyWatchdog;
    std::panic::set_hook(Box::new(|_| {}));
    let wd = LazyWatchdog.in_rc();
    let r = catch_unwind(AssertUnwindSafe(|| {
        let mut state = tc::state::TypeCheckerState::empty();
        let v: Vec<TypeVariable> = (0..3).map(|i| slot_var(&mut state, i)).collect();
        state.infer(v[0], TE::bytes(Some(64)));
        state.infer(v[1], TE::unsigned_word(Some(256)));
        let first = unification::unify(&mut state, &wd).is_ok();
        state.infer(v[0], TE::signed_word(None));
        state.infer(v[1], TE::unsigned_word(Some(128)));
        state.infer(v[2], TE::eq(v[0]));
        let second = unification::unify(&mut state, &wd).is_ok();
        (first, second, resolved(&mut state, v[0]), resolved(&mut state, v[1]), resolved(&mut state, v[2]))
    }));
    match r {
        Err(_) => witness("C15", "join.second_unification_sees_new_evidence", "unify; infer more on registered variables; unify".into(), "PANIC".into(), "returns".into()),
        Ok((first, second, r0, r1, r2)) => {
            let joined = matches!(r0.1.as_slice(), [TE::Word { width: Some(64), usage }] if usage.is_definitely_signed());
            let conflict = matches!(r1.1.as_slice(), [TE::Conflict { .. }]);
            if !(first && second && joined && conflict) {
                witness("C15", "join.second_unification_sees_new_evidence", "v0: bytes8, v1: uint256; unify; v0: signed, v1: uint128, v2 = v0; unify".into(), format!("ok {first}/{second}; v0 {:?}; v1 {:?}", r0.1, r1.1), "v0: signed 64-bit word, v1: conflict".into());
            }
            if r2.0 != r0.0 { witness("C14", "unify.equal_variables_same_type", "v2 = v0 declared after a first unification".into(), format!("classes {} and {}", r2.0, r0.0), "one class".into()); }
        }
    }
    println!("CASES c15_second_unification 1");
}
