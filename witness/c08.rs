//! C08 / C17 / C01 through the public entry point: small crafted programs.
use std::panic::catch_unwind;

use ethnum::U256;
use storage_layout_extractor::{
    self as sle,
    extractor::{
        chain::{version::EthereumVersion, Chain},
        contract::Contract,
    },
    watchdog::LazyWatchdog,
};

use crate::witness;

pub enum Out { Panic, Err(String), Ok(Vec<(U256, usize)>) }

pub fn analyze(bytes: &[u8], permissive: bool) -> Out {
    let b = bytes.to_vec();
    let r = catch_unwind(move || {
        let contract = Contract::new(b, Chain::Ethereum { version: EthereumVersion::Shanghai });
        sle::new(contract, sle::vm::Config::default().with_permissive_errors(permissive), sle::tc::Config::default(), LazyWatchdog.in_rc()).analyze()
    });
    match r {
        Err(_) => Out::Panic,
        Ok(Ok(l)) => Out::Ok(l.slots().iter().map(|s| (s.index.0, s.offset)).collect()),
        Ok(Err(e)) => Out::Err(format!("{e:?}").chars().take(300).collect()),
    }
}

fn slots(o: &Out) -> Option<Vec<U256>> { if let Out::Ok(v) = o { Some(v.iter().map(|x| x.0).collect()) } else { None } }

/// `prefix` then  JUMPDEST@? PUSH1 1 PUSH1 <slot> SSTORE STOP ; reports whether `slot` shows up
fn has_slot(o: &Out, s: u128) -> bool { slots(o).map_or(false, |v| v.contains(&U256::new(s))) }

#[test]
fn c08_control_flow_programs() {
    std::panic::set_hook(Box::new(|_| {}));
    // (name, code, slot that must NOT be reported, slot that MUST be reported (or none))
    let store = |slot: u8| vec![0x5b, 0x60, 0x01, 0x60, slot, 0x55, 0x00];
    let mut progs: Vec<(&str, Vec<u8>, Option<u128>, Option<u128>)> = vec![];
    // jump to 2^32+8 whose low bits name a valid JUMPDEST at 8
    let mut p = vec![0x64, 0x01, 0x00, 0x00, 0x00, 0x08, 0x56, 0xfe];
    p.extend(store(7));
    progs.push(("truncated 2^32+8 target", p, Some(7), None));
    // jump into push data: PUSH1 4 JUMP PUSH1 0x5b ; then code
    let mut p = vec![0x60, 0x04, 0x56, 0x60, 0x5b, 0x60, 0x01, 0x60, 0x09, 0x55, 0x00];
    progs.push(("target inside push data", p.clone(), Some(9), None));
    // valid jump
    p = vec![0x60, 0x04, 0x56, 0xfe];
    p.extend(store(5));
    progs.push(("valid target", p, None, Some(5)));
    for (op, name) in [(0x00u8, "STOP"), (0xf3, "RETURN"), (0xfd, "REVERT"), (0xff, "SELFDESTRUCT"), (0xfe, "INVALID"), (0x0c, "unassigned 0x0c")] {
        let mut p = vec![0x60, 0x00, 0x60, 0x00, op, 0x60, 0x01, 0x60, 0x09, 0x55, 0x00];
        if op == 0xff { p = vec![0x60, 0x00, op, 0x60, 0x01, 0x60, 0x09, 0x55, 0x00]; }
        progs.push((Box::leak(format!("dead code after {name}").into_boxed_str()), p, Some(9), None));
    }
    // both branches of JUMPI explored: CALLDATASIZE PUSH1 9 JUMPI  PUSH1 1 PUSH1 2 SSTORE STOP JUMPDEST PUSH1 1 PUSH1 3 SSTORE STOP
    let p = vec![0x36, 0x60, 0x0a, 0x57, 0x60, 0x01, 0x60, 0x02, 0x55, 0x00, 0x5b, 0x60, 0x01, 0x60, 0x03, 0x55, 0x00];
    progs.push(("jumpi fallthrough", p.clone(), None, Some(2)));
    progs.push(("jumpi taken", p, None, Some(3)));
    let n = progs.len();
    for (name, code, must_not, must) in progs {
        let o = analyze(&code, true);
        if let Out::Panic = o {
            witness("C01", "analyze.panic", format!("{name}: {code:02x?}"), "PANIC".into(), "layout or error".into());
            continue;
        }
        if let Some(s) = must_not { if has_slot(&o, s) { witness("C08", "ctl.no_illegal_transfer", format!("{name}: {code:02x?}"), format!("slot {s} reported"), "unreachable code not executed".into()); } }
        if let Some(s) = must { if !has_slot(&o, s) { witness("C08", "ctl.legal_transfer_followed", format!("{name}: {code:02x?}"), format!("slot {s} missing"), format!("slot {s}")); } }
    }
    println!("CASES c08_programs {n}");
}
