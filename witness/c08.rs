//! C08 / C17 / C01 through the public entry point: small crafted programs.
use std::panic::catch_unwind;

use ethnum::U256;
use storage_layout_extractor::{
    self as sle,
    extractor::{
        chain::{version::EthereumVersion, Chain},
        contract::Contract,
    },
    watchdog::LazyWatchdog,
};

use crate::witness;

pub enum Out { Panic, Err(String), Ok(Vec<(U256, usize)>) }

pub fn analyze(bytes: &[u8], permissive: bool) -> Out {
    let b = bytes.to_vec();
    let r = catch_unwind(move || {
        let contract = Contract::new(b, Chain::Ethereum { version: EthereumVersion::Shanghai });
        sle::new(contract, sle::vm::Config::default().with_permissive_errors(permissive), sle::tc::Config::default(), LazyWatchdog.in_rc()).analyze()
    });
    match r {
        Err(_) => Out::Panic,
        Ok(Ok(l)) => Out::Ok(l.slots().iter().map(|s| (s.index.0, s.offset)).collect()),
        Ok(Err(e)) => Out::Err(format!("{e:?}").chars().take(300).collect()),
    }
}

/// (slot index, offset, known bit width) of every entry, or None when the analysis failed
pub fn analyze_layout(bytes: &[u8]) -> Option<Vec<(U256, usize, Option<usize>)>> {
    use storage_layout_extractor::tc::abi::AbiType;
    fn width(t: &AbiType) -> Option<usize> {
        match t {
            AbiType::Number { size } | AbiType::UInt { size } | AbiType::Int { size } => *size,
            AbiType::Bytes { length } => length.map(|l| l * 8),
            AbiType::Bits { length } => *length,
            AbiType::Address => Some(160),
            AbiType::Selector => Some(32),
            AbiType::Function => Some(192),
            AbiType::Bool => Some(8),
            _ => None,
        }
    }
    let b = bytes.to_vec();
    let r = catch_unwind(move || {
        let contract = Contract::new(b, Chain::Ethereum { version: EthereumVersion::Shanghai });
        sle::new(contract, sle::vm::Config::default().with_permissive_errors(true), sle::tc::Config::default(), LazyWatchdog.in_rc()).analyze()
    });
    match r {
        Ok(Ok(l)) => Some(l.slots().iter().map(|s| (s.index.0, s.offset, width(&s.typ))).collect()),
        Ok(Err(_)) => None,
        Err(_) => { witness("C01", "analyze.panic.layout_programs", format!("{bytes:02x?}"), "PANIC".into(), "layout or error".into()); None }
    }
}

fn slots(o: &Out) -> Option<Vec<U256>> { if let Out::Ok(v) = o { Some(v.iter().map(|x| x.0).collect()) } else { None } }

/// `prefix` then  JUMPDEST@? PUSH1 1 PUSH1 <slot> SSTORE STOP ; reports whether `slot` shows up
fn has_slot(o: &Out, s: u128) -> bool { slots(o).map_or(false, |v| v.contains(&U256::new(s))) }

#[test]
fn c08_control_flow_programs() {
    std::panic::set_hook(Box::new(|_| {}));
    // (name, code, slot that must NOT be reported, slot that MUST be reported (or none))
    let store = |slot: u8| vec![0x5b, 0x60, 0x01, 0x60, slot, 0x55, 0x00];
    let mut progs: Vec<(&str, Vec<u8>, Option<u128>, Option<u128>)> = vec![];
    // jump to 2^32+8 whose low bits name a valid JUMPDEST at 8
    let mut p = vec![0x64, 0x01, 0x00, 0x00, 0x00, 0x08, 0x56, 0xfe];
    p.extend(store(7));
    progs.push(("truncated 2^32+8 target", p, Some(7), None));
    // jump to 2^64+8 / 2^128+8 / 2^255+8 whose low bits name a valid JUMPDEST at offset 0x0d / 0x14 / 0x24
    for (n, name) in [(9usize, "2^64"), (17, "2^128"), (32, "2^255")] {
        // PUSHn (1 << 8*(n-1)) + dest ; JUMP ; INVALID ; JUMPDEST ...
        let mut p = vec![0x5f + n as u8];
        let mut imm = vec![0u8; n];
        imm[0] = if n == 32 { 0x80 } else { 0x01 };
        let dest = (n + 3) as u8;
        imm[n - 1] = dest;
        p.extend(&imm);
        p.extend([0x56, 0xfe]);
        p.extend(store(7));
        progs.push((Box::leak(format!("truncated {name}+{dest} target").into_boxed_str()), p, Some(7), None));
        // the same target through JUMPI
        let mut p = vec![0x60, 0x01, 0x5f + n as u8];
        let dest = (n + 5) as u8;
        imm[n - 1] = dest;
        p.extend(&imm);
        p.extend([0x57, 0x00]);
        p.extend(store(7));
        progs.push((Box::leak(format!("truncated {name}+{dest} target via JUMPI").into_boxed_str()), p, Some(7), None));
    }
    // jump into push data: PUSH1 4 JUMP PUSH1 0x5b ; then code
    let mut p = vec![0x60, 0x04, 0x56, 0x60, 0x5b, 0x60, 0x01, 0x60, 0x09, 0x55, 0x00];
    progs.push(("target inside push data", p.clone(), Some(9), None));
    // valid jump
    p = vec![0x60, 0x04, 0x56, 0xfe];
    p.extend(store(5));
    progs.push(("valid target", p, None, Some(5)));
    for (op, name) in [(0x00u8, "STOP"), (0xf3, "RETURN"), (0xfd, "REVERT"), (0xff, "SELFDESTRUCT"), (0xfe, "INVALID"), (0x0c, "unassigned 0x0c")] {
        let mut p = vec![0x60, 0x00, 0x60, 0x00, op, 0x60, 0x01, 0x60, 0x09, 0x55, 0x00];
        if op == 0xff { p = vec![0x60, 0x00, op, 0x60, 0x01, 0x60, 0x09, 0x55, 0x00]; }
        progs.push((Box::leak(format!("dead code after {name}").into_boxed_str()), p, Some(9), None));
    }
    // jump onto a 0x5b that is data of a PUSH32 cut short by the end of the code: 60 05 56 00 7f 5b 60 01 60 09 55
    progs.push(("target inside truncated push data", vec![0x60, 0x05, 0x56, 0x00, 0x7f, 0x5b, 0x60, 0x01, 0x60, 0x09, 0x55], Some(9), None));
    // RETURN / REVERT with boundary offsets and sizes still end the path
    for (op, name) in [(0xf3u8, "RETURN"), (0xfd, "REVERT")] {
        for off in [vec![0x68u8, 1, 0, 0, 0, 0, 0, 0, 0, 0], { let mut v = vec![0x7f, 0x80]; v.extend([0u8; 31]); v }, { let mut v = vec![0x7f]; v.extend([0xffu8; 32]); v }] {
            // PUSH1 size ; PUSHn offset ; OP ; dead: PUSH1 1 PUSH1 9 SSTORE
            let mut p = vec![0x60, 0x20];
            p.extend(&off);
            p.extend([op, 0x60, 0x01, 0x60, 0x09, 0x55, 0x00]);
            progs.push((Box::leak(format!("dead code after {name} with offset {:02x?}..", &off[..2]).into_boxed_str()), p, Some(9), None));
            let mut p = off.clone();
            p.extend([0x60, 0x00, op, 0x60, 0x01, 0x60, 0x09, 0x55, 0x00]);
            progs.push((Box::leak(format!("dead code after {name} with size {:02x?}..", &off[..2]).into_boxed_str()), p, Some(9), None));
        }
    }
    // a stack overflow (1025th item by PUSH or DUP) and an underflow end the path: the code behind them is dead
    for (name, tail) in [("DUP1 on a full stack", vec![0x80u8]), ("PUSH1 on a full stack", vec![0x60, 0x07]), ("DUP16 on a full stack", vec![0x8f])] {
        let mut p: Vec<u8> = std::iter::repeat([0x60u8, 0x00]).take(1024).flatten().collect();
        p.extend(&tail);
        p.extend([0x60, 0x01, 0x60, 0x09, 0x55, 0x00]);
        progs.push((Box::leak(format!("dead code after {name}").into_boxed_str()), p, Some(9), None));
    }
    // a jump target computed with a shift by 2^32 / 2^64 / 2^255 (the shifted part is 0 on the EVM): PUSH t ; PUSH 2 ; PUSH s ; SHL ; ADD ; JUMP
    // lands on t (STOP behind a JUMPDEST), never on the dead block at t + 2 that stores slot 9
    for s in [U256::ONE << 32u32, (U256::ONE << 32u32) + U256::from(1u8), U256::ONE << 64u32, U256::ONE << 255u32] {
        for shr in [false, true] {
            let mut p: Vec<u8> = vec![];
            let sb = s.to_be_bytes(); let z = sb.iter().take_while(|v| **v == 0).count();
            let tail_len = 2 + 2 + (1 + 32 - z) + 1 + 1 + 1;
            let t = tail_len as u8;
            p.extend([0x60, t, 0x60, 0x02]); p.push(0x5f + (32 - z) as u8); p.extend(&sb[z..]); p.extend([if shr { 0x1c } else { 0x1b }, 0x01, 0x56]);
            assert_eq!(p.len(), tail_len);
            // t: JUMPDEST STOP ; t+2: JUMPDEST PUSH1 1 PUSH1 9 SSTORE STOP
            p.extend([0x5b, 0x00, 0x5b, 0x60, 0x01, 0x60, 0x09, 0x55, 0x00]);
            progs.push((Box::leak(format!("jump to t + (2 {} {s:#x}) lands on t", if shr { ">>" } else { "<<" }).into_boxed_str()), p, Some(9), None));
        }
    }
    progs.push(("dead code after a stack underflow", vec![0x01, 0x60, 0x01, 0x60, 0x09, 0x55, 0x00], Some(9), None));
    // the overflowing DUP's copy would be the key of the SSTORE right behind it (no further push needed)
    for dup in [0x80u8, 0x81, 0x8f] {
        let mut p: Vec<u8> = std::iter::repeat([0x60u8, 0x09]).take(1024).flatten().collect();
        p.extend([dup, 0x55, 0x00]);
        progs.push((Box::leak(format!("SSTORE fed by DUP{} on a full stack", dup - 0x7f).into_boxed_str()), p, Some(9), None));
    }
    // both branches of JUMPI explored: CALLDATASIZE PUSH1 9 JUMPI  PUSH1 1 PUSH1 2 SSTORE STOP JUMPDEST PUSH1 1 PUSH1 3 SSTORE STOP
    let p = vec![0x36, 0x60, 0x0a, 0x57, 0x60, 0x01, 0x60, 0x02, 0x55, 0x00, 0x5b, 0x60, 0x01, 0x60, 0x03, 0x55, 0x00];
    progs.push(("jumpi fallthrough", p.clone(), None, Some(2)));
    progs.push(("jumpi taken", p, None, Some(3)));
    let n = progs.len();
    for (name, code, must_not, must) in progs {
        let o = analyze(&code, true);
        if let Out::Panic = o {
            witness("C01", "analyze.panic", format!("{name}: {code:02x?}"), "PANIC".into(), "layout or error".into());
            continue;
        }
        if let Some(s) = must_not { if has_slot(&o, s) {
            witness("C08", "ctl.no_illegal_transfer", format!("{name}: {code:02x?}"), format!("slot {s} reported"), "unreachable code not executed".into());
            witness("C05", "slots.only_accessed_slots.dead_code_executed", format!("{name}: {code:02x?}"), format!("slot {s} reported"), "only slots of EVM-reachable storage accesses".into());
        } }
        if let Some(s) = must { if !has_slot(&o, s) { witness("C08", "ctl.legal_transfer_followed", format!("{name}: {code:02x?}"), format!("slot {s} missing"), format!("slot {s}")); } }
    }
    // a jump into push data (complete or cut short) is an invalid jump: strict mode must report it
    for (name, code) in [("JUMP into complete push data", vec![0x60u8, 0x04, 0x56, 0x60, 0x5b, 0x00]),
                         ("JUMP into truncated push data", vec![0x60, 0x05, 0x56, 0x00, 0x7f, 0x5b, 0x60, 0x01]),
                         ("JUMPI into truncated push data", vec![0x60, 0x01, 0x60, 0x07, 0x57, 0x00, 0x62, 0x5b, 0x00])] {
        if let Out::Ok(_) = analyze(&code, false) {
            witness("C08", "ctl.jump_into_push_data_is_refused", format!("{name}: {code:02x?}"), "strict analysis Ok".into(), "Err(InvalidJumpTarget)".into());
            witness("C10", "dis.immediates_are_never_jump_destinations", format!("{name}: {code:02x?}"), "jump accepted".into(), "refused".into());
        }
    }
    println!("CASES c08_programs {n}");
}

/// the target of every valid JUMP / JUMPI is really executed — also when it is the last byte of the code
#[test]
fn c08_valid_targets_are_executed() {
    use storage_layout_extractor::{disassembly::InstructionStream, vm::{Config, VM}};
    std::panic::set_hook(Box::new(|_| {}));
    // (code, offsets that must be visited by some path)
    let progs: Vec<(Vec<u8>, Vec<u32>)> = vec![
        (vec![0x36, 0x60, 0x05, 0x57, 0x00, 0x5b], vec![4, 5]),                                 // JUMPI to a JUMPDEST in the final byte
        (vec![0x60, 0x03, 0x56, 0x5b], vec![3]),                                                 // JUMP to a final-byte JUMPDEST (stepped over, so only "no error")
        (vec![0x36, 0x60, 0x06, 0x57, 0x00, 0x00, 0x5b, 0x00], vec![4, 6, 7]),
        (vec![0x36, 0x60, 0x04, 0x60, 0x05, 0x01, 0x57, 0x00, 0x00, 0x5b, 0x60, 0x01, 0x50, 0x00], vec![7, 9, 10]),   // computed constant target 4 + 5
        (vec![0x36, 0x58, 0x60, 0x07, 0x01, 0x57, 0x00, 0x00, 0x5b, 0x00], vec![6, 8, 9]),                              // PC-relative target
        (vec![0x60, 0x04, 0x60, 0x05, 0x01, 0x56, 0x00, 0x00, 0x00, 0x5b, 0x60, 0x01, 0x50, 0x00], vec![10, 12]),        // computed target through JUMP
        // targets computed by two and more ALU operations: 2 + 2 + 8 = 12 ; (96 >> 1) >> 1 = 24 -> here scaled to the code
        (vec![0x60, 0x02, 0x60, 0x02, 0x01, 0x60, 0x08, 0x01, 0x56, 0x00, 0x00, 0x00, 0x5b, 0x60, 0x01, 0x50, 0x00], vec![13, 15]),
        (vec![0x60, 0x38, 0x60, 0x01, 0x1c, 0x60, 0x01, 0x1c, 0x56, 0x00, 0x00, 0x00, 0x00, 0x00, 0x5b, 0x60, 0x01, 0x50, 0x00], vec![15, 17]),
        (vec![0x36, 0x60, 0x01, 0x60, 0x03, 0x1b, 0x60, 0x06, 0x17, 0x60, 0x01, 0x01, 0x57, 0x00, 0x00, 0x5b, 0x60, 0x01, 0x50, 0x00], vec![13, 16, 18]),   // JUMPI to ((1 << 3) | 6) + 1 = 15
        (vec![0x60, 0xff, 0x19, 0x19, 0x60, 0xf0, 0x16, 0x60, 0x04, 0x1c, 0x56, 0x00, 0x00, 0x00, 0x00, 0x5b, 0x60, 0x01, 0x50, 0x00], vec![16, 18]),          // ((~~0xff) & 0xf0) >> 4 = 15
    ];
    // targets computed from CODESIZE in code longer than the 24576 bytes a deployed contract may have (init code may be longer):
    // PUSH1 0x20 CODESIZE SUB JUMP ... JUMPDEST at len - 0x20 ; with a look-alike JUMPDEST block at 24576 - 0x20
    let mut progs = progs;
    for len in [24640usize, 30000] {
        let mut code = vec![0x60, 0x20, 0x38, 0x03, 0x56];
        code.resize(len, 0x00);
        for at in [24576 - 0x20, len - 0x20] { code[at] = 0x5b; code[at + 1] = 0x60; code[at + 2] = 0x01; code[at + 3] = 0x50; }
        progs.push((code, vec![(len - 0x20 + 1) as u32, (len - 0x20 + 3) as u32]));
    }
    let n = progs.len();
    for (code, must) in progs {
        let Ok(is) = InstructionStream::try_from(code.as_slice()) else { continue };
        let Ok(mut vm) = VM::new(is, Config::default(), LazyWatchdog.in_rc()) else { continue };
        let r = vm.execute();
        if let Err(e) = &r { for pid in ["C08", "C07"] { witness(pid, "ctl.legal_transfer_followed", format!("{code:02x?}"), format!("execution errors {:?}", e.payloads().iter().map(|x| format!("{:?}", x.payload)).collect::<Vec<_>>()), "no error: every jump is legal".into()); } }
        let res = vm.consume();
        for off in must {
            // a JUMPDEST reached by JUMP is stepped over without being counted; everything else on the path is counted
            let seen = res.states.iter().any(|st| st.visited_instructions().visit_count(off).unwrap_or(0) > 0);
            if !seen && !(code[off as usize] == 0x5b && off as usize + 1 == code.len() && code.contains(&0x56)) {
                for pid in ["C08", "C07"] { witness(pid, "ctl.legal_transfer_followed", if code.len() > 200 { format!("code of {} bytes starting {:02x?}", code.len(), &code[..8]) } else { format!("{code:02x?}") }, format!("offset {off} never executed"), "both outcomes of the jump explored".into()); }
            }
        }
    }
    println!("CASES c08_targets {n}");
}
