//! vx witness drivers — NOT proofs.  Concrete boundary/random inputs run against the real crate to
//! (a) attach a failing input to an obligation the verifier rejected, (b) cross-check the contracts
//! against the running code in the thorough tier.  Copied into a scratch copy of the repository as
//! tests/vx_witness/ on every run.  A violation is reported as a line
//!   WITNESS property=<id> obligation=<name> input=<..> got=<..> want=<..>
//! and never as a panic.
#![allow(dead_code, clippy::all)]
use ethnum::U256;

pub fn witness(prop: &str, obligation: &str, input: String, got: String, want: String) {
    println!("WITNESS property={prop} obligation={obligation} input={input} got={got} want={want}");
}

/// case-count multiplier: 1 in the quick tier, 4 in thorough
pub fn scale() -> u64 { if std::env::var("VERIF_TIER").map_or(false, |t| t == "thorough") { 4 } else { 1 } }

pub struct Rng(pub u64);
impl Rng {
    pub fn seeded(salt: u64) -> Self {
        let s: u64 = std::env::var("VERIF_SEED").ok().and_then(|v| v.parse().ok()).unwrap_or(0);
        Rng(0x9e3779b97f4a7c15u64 ^ s.wrapping_mul(0x2545f4914f6cdd1d) ^ salt.wrapping_mul(0xbf58476d1ce4e5b9) | 1)
    }
    pub fn next(&mut self) -> u64 {
        let mut x = self.0;
        x ^= x << 13;
        x ^= x >> 7;
        x ^= x << 17;
        self.0 = x;
        x
    }
    pub fn below(&mut self, n: u64) -> u64 { self.next() % n }
    pub fn word(&mut self) -> U256 {
        let hi = ((self.next() as u128) << 64) | self.next() as u128;
        let lo = ((self.next() as u128) << 64) | self.next() as u128;
        U256::from_words(hi, lo)
    }
}

/// the boundary set of the properties: 0, 1, 2, 2^k, 2^k±1, 255/256/257, 2^32, 2^64, 2^255, 2^256-1, MIN, -1
pub fn boundary_words() -> Vec<U256> {
    let mut v = vec![U256::ZERO, U256::ONE, U256::new(2), U256::new(3), U256::new(31), U256::new(32), U256::new(255), U256::new(256), U256::new(257),
                     U256::new(1 << 32), U256::new((1 << 32) + 8), U256::new(1 << 64), U256::new((1u128 << 64) - 1), U256::MAX, U256::MAX - U256::ONE,
                     U256::ONE << 255u32, (U256::ONE << 255u32) - U256::ONE, (U256::ONE << 255u32) + U256::ONE];
    for k in [7u32, 8, 15, 16, 31, 63, 64, 127, 128, 129, 159, 160, 191, 254] {
        let p = U256::ONE << k;
        v.push(p);
        v.push(p - U256::ONE);
        v.push(p + U256::ONE);
    }
    v.sort();
    v.dedup();
    v
}

mod c01;
mod c03;
mod c05;
mod c06;
mod c07;
mod c07_diff;
mod c08;
mod c09;
mod c10;
mod c12;
mod c14;
mod c15;
mod c16;
mod c17;
mod c18;
mod c19;
mod c20;
mod probe;
mod c13;
